//! The subset of once_cell's API used by relay-crates/intern, over shuttle's
//! scheduler-controlled primitives (a stub of once_cell, listed as such in evidence).
pub mod sync {
    use shuttle::sync::atomic::{AtomicBool, Ordering};
    use shuttle::sync::Mutex;
    use std::cell::UnsafeCell;

    pub struct OnceCell<T> {
        done: AtomicBool,
        lock: Mutex<()>,
        value: UnsafeCell<Option<T>>,
    }

    // SAFETY: `value` is written once, under `lock`, before `done` is published
    unsafe impl<T: Send + Sync> Sync for OnceCell<T> {}
    unsafe impl<T: Send> Send for OnceCell<T> {}

    impl<T> Default for OnceCell<T> {
        fn default() -> Self {
            Self::new()
        }
    }

    impl<T> OnceCell<T> {
        pub const fn new() -> Self {
            OnceCell {
                done: AtomicBool::new(false),
                lock: Mutex::new(()),
                value: UnsafeCell::new(None),
            }
        }
        pub fn get(&self) -> Option<&T> {
            if self.done.load(Ordering::Acquire) {
                unsafe { (*self.value.get()).as_ref() }
            } else {
                None
            }
        }
        /// Sets the contents if the cell is empty; otherwise hands the value back.
        pub fn set(&self, value: T) -> Result<(), T> {
            match self.try_insert(value) {
                Ok(_) => Ok(()),
                Err((_, value)) => Err(value),
            }
        }

        /// Like `set`, but also returns a reference to the final contents.
        pub fn try_insert(&self, value: T) -> Result<&T, (&T, T)> {
            let mut value = Some(value);
            let r = self.get_or_init(|| value.take().unwrap());
            match value {
                None => Ok(r),
                Some(value) => Err((r, value)),
            }
        }

        pub fn get_or_try_init<F: FnOnce() -> Result<T, E>, E>(&self, f: F) -> Result<&T, E> {
            if !self.done.load(Ordering::Acquire) {
                let _g = self.lock.lock().unwrap();
                if !self.done.load(Ordering::Acquire) {
                    let v = f()?;
                    unsafe { *self.value.get() = Some(v) };
                    self.done.store(true, Ordering::Release);
                }
            }
            Ok(unsafe { (*self.value.get()).as_ref().unwrap() })
        }

        pub fn get_mut(&mut self) -> Option<&mut T> {
            self.value.get_mut().as_mut()
        }

        pub fn into_inner(self) -> Option<T> {
            self.value.into_inner()
        }

        pub fn get_or_init<F: FnOnce() -> T>(&self, f: F) -> &T {
            if !self.done.load(Ordering::Acquire) {
                let _g = self.lock.lock().unwrap();
                if !self.done.load(Ordering::Acquire) {
                    let v = f();
                    unsafe { *self.value.get() = Some(v) };
                    self.done.store(true, Ordering::Release);
                }
            }
            unsafe { (*self.value.get()).as_ref().unwrap() }
        }
    }

    pub struct Lazy<T, F = fn() -> T> {
        cell: OnceCell<T>,
        init: F,
    }

    impl<T, F> Lazy<T, F> {
        pub const fn new(init: F) -> Self {
            Lazy {
                cell: OnceCell::new(),
                init,
            }
        }
    }

    impl<T, F: Fn() -> T> Lazy<T, F> {
        pub fn force(this: &Self) -> &T {
            this.cell.get_or_init(|| (this.init)())
        }
    }

    impl<T, F: Fn() -> T> std::ops::Deref for Lazy<T, F> {
        type Target = T;
        fn deref(&self) -> &T {
            Lazy::force(self)
        }
    }
}
