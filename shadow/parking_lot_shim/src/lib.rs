//! The subset of parking_lot's API used by relay-crates/intern, over shuttle's
//! scheduler-controlled primitives (a stub of parking_lot, listed as such in evidence).
use shuttle::sync as ss;

pub struct Mutex<T>(ss::Mutex<T>);
pub type MutexGuard<'a, T> = ss::MutexGuard<'a, T>;

pub const fn const_mutex<T>(v: T) -> Mutex<T> {
    Mutex(ss::Mutex::new(v))
}

impl<T> Mutex<T> {
    pub const fn new(v: T) -> Self {
        Mutex(ss::Mutex::new(v))
    }
    pub fn lock(&self) -> MutexGuard<'_, T> {
        self.0.lock().unwrap()
    }
    pub fn try_lock(&self) -> Option<MutexGuard<'_, T>> {
        self.0.try_lock().ok()
    }
    pub fn get_mut(&mut self) -> &mut T {
        self.0.get_mut().unwrap()
    }
    pub fn into_inner(self) -> T {
        self.0.into_inner().unwrap()
    }
}

impl<T: Default> Default for Mutex<T> {
    fn default() -> Self {
        Mutex::new(T::default())
    }
}

pub struct RwLock<T>(ss::RwLock<T>);
pub type RwLockReadGuard<'a, T> = ss::RwLockReadGuard<'a, T>;
pub type RwLockWriteGuard<'a, T> = ss::RwLockWriteGuard<'a, T>;

impl<T> RwLock<T> {
    pub const fn new(v: T) -> Self {
        RwLock(ss::RwLock::new(v))
    }
    pub fn read(&self) -> RwLockReadGuard<'_, T> {
        self.0.read().unwrap()
    }
    pub fn write(&self) -> RwLockWriteGuard<'_, T> {
        self.0.write().unwrap()
    }
    pub fn try_write(&self) -> Option<RwLockWriteGuard<'_, T>> {
        self.0.try_write().ok()
    }
    pub fn try_read(&self) -> Option<RwLockReadGuard<'_, T>> {
        self.0.try_read().ok()
    }
    pub fn get_mut(&mut self) -> &mut T {
        self.0.get_mut().unwrap()
    }
    pub fn into_inner(self) -> T {
        self.0.into_inner().unwrap()
    }
}

impl<T: Default> Default for RwLock<T> {
    fn default() -> Self {
        RwLock::new(T::default())
    }
}
