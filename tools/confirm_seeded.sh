#!/usr/bin/env bash
# Confirms one seeded change in its scratch worktree /tmp/wt-<ID>:
#   patch applies; demonstration passes without and fails with the patch; the existing
#   workspace test suite passes with the patch. Prints one summary line.
#   tools/confirm_seeded.sh <ID> <tests-dir relative to worktree|-> <package> <test target|-> [extra rustflags]
set -u
ID="$1"; TESTDIR="$2"; PKG="$3"; TARGET="$4"; FLAGS="${5:-}"
W=/tmp/wt-$ID
cd "$W" || exit 2
export CARGO_NET_OFFLINE=true
git checkout -q -- . 2>/dev/null
run_demo() {
  if [ "$TESTDIR" = "-" ]; then
    (cd "$W/SEEDED/demo/c21_demo" && CARGO_TARGET_DIR="$W/target" cargo test --offline >/dev/null 2>&1)
  elif [ -n "$FLAGS" ]; then
    (cd "$W/$(dirname "$TESTDIR")" && RUSTFLAGS="$FLAGS" cargo test --offline --target-dir target/verif --test "$TARGET" >/dev/null 2>&1)
  else
    cargo test -p "$PKG" --offline --test "$TARGET" >/dev/null 2>&1
  fi
}
if [ "$TESTDIR" != "-" ]; then mkdir -p "$TESTDIR"; cp -r SEEDED/demo/* "$TESTDIR"/; rm -f "$TESTDIR"/RUN.md; fi
git apply --check SEEDED/patch.diff 2>/dev/null && applies=yes || applies=NO
run_demo && without=pass || without=FAIL
git apply SEEDED/patch.diff
run_demo && with=PASS || with=fail
if [ "$TESTDIR" != "-" ]; then (cd "$TESTDIR" && for f in "$W"/SEEDED/demo/*; do rm -rf "$(basename "$f")"; done); fi
cargo test --workspace --no-fail-fast --offline > SEEDED/confirm_suite.log 2>&1 && suite=pass || suite=FAIL
passed=$(grep -E "^test result" SEEDED/confirm_suite.log | awk '{p+=$4; f+=$6} END {print p"/"f}')
git checkout -q -- .
git status --short | grep -v SEEDED | head -3
echo "CONFIRM $ID: patch-applies=$applies demo-without-patch=$without demo-with-patch=$with suite-with-patch=$suite (passed/failed $passed)"
