#!/usr/bin/env bash
# Confirms one wave-2 seeded change in its scratch worktree /tmp/sw2-<ID> (variant A or B):
#   patch applies; demonstration passes without and fails with the patch; the existing
#   workspace test suite passes with the patch (demonstration removed). One summary line.
#   tools/confirm_seeded2.sh <ID> <A|B> <dir for the demo files, relative to the worktree> <demo command...>
# The demo command runs from the worktree root, e.g.: cargo test -p pico --offline --test seeded_a
set -u
ID="$1"; V="$2"; DEST="$3"; shift 3
W=/tmp/${WAVE:-sw2}-$ID; S="$W/SEEDED/$V"
cd "$W" || exit 2
export CARGO_NET_OFFLINE=true
git checkout -q -- . 2>/dev/null
copied=()
mkdir -p "$DEST"
for f in "$S"/demo/*; do
  b="$(basename "$f")"; [ "$b" = "RUN.md" ] && continue
  cp -r "$f" "$DEST/$b"; copied+=("$DEST/$b")
done
run_demo() { "$@" >"$S/confirm_demo.log" 2>&1; }
git apply --check "$S/patch.diff" 2>/dev/null && applies=yes || applies=NO
run_demo "$@" && without=pass || without=FAIL
git apply "$S/patch.diff"
run_demo "$@" && with=PASS || with=fail
for c in "${copied[@]}"; do rm -rf "$c"; done
cargo test --workspace --no-fail-fast --offline > "$S/confirm_suite.log" 2>&1 && suite=pass || suite=FAIL
passed=$(grep -E "^test result" "$S/confirm_suite.log" | awk '{p+=$4; f+=$6} END {print p"/"f}')
git checkout -q -- .
git status --short | grep -v SEEDED | head -3
echo "CONFIRM $ID-$V: patch-applies=$applies demo-without-patch=$without demo-with-patch=$with suite-with-patch=$suite (passed/failed $passed)"
