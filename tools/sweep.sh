#!/usr/bin/env bash
# Sensitivity sweep: every kept seeded change (seeded/*/patch.diff, property from meta.json) and
# every own mutant (mutants/*.patch, property from mutants/PROPERTIES) is applied to /repo in
# turn, the quick check of its property is run and the reported replay re-executed; /repo is
# restored after each. Writes one line per change to the file given as $1 (default
# seeded/SWEEP.txt). Needs a clean /repo working tree and nothing else using /repo meanwhile.
#   tools/sweep.sh [out file] [filter regex on the change's name]
set -u
ROOT="$(cd "$(dirname "${BASH_SOURCE[0]}")/.." && pwd)"
OUT="${1:-$ROOT/seeded/SWEEP.txt}"; FILTER="${2:-.}"
: > "$OUT"
for d in "$ROOT"/seeded/*/; do
  name="$(basename "$d")"
  echo "$name" | grep -Eq "$FILTER" || continue
  [ -f "$d/patch.diff" ] || continue
  prop="$(python3 -c 'import json,sys; print(json.load(open(sys.argv[1]))["breaks_property"])' "$d/meta.json")"
  line="$("$ROOT/tools/sensitivity.sh" "$d/patch.diff" "$prop" 2>&1 | tail -1)"
  echo "$name $prop :: ${line#RESULT patch.diff $prop: }" | tee -a "$OUT"
done
while read -r patch prop; do
  [ -n "$patch" ] || continue
  echo "$patch" | grep -Eq "$FILTER" || continue
  f="$ROOT/mutants/$patch.patch"
  [ -f "$f" ] || continue
  line="$("$ROOT/tools/sensitivity.sh" "$f" "$prop" 2>&1 | tail -1)"
  echo "$patch $prop :: ${line#RESULT $patch.patch $prop: }" | tee -a "$OUT"
done < "$ROOT/mutants/PROPERTIES"
