#!/usr/bin/env bash
# Keeps one confirmed wave-2 seeded change: tools/keep_seeded2.sh <ID> <A|B> <property> "<needs>" "<confirm line>" "<detected by>"
set -eu
ID="$1"; V="$2"; PROP="$3"; NEEDS="$4"; CONFIRM="$5"; DET="$6"
W=${WAVE:-sw2}; N=${W#sw}; SRC=/tmp/$W-$ID/SEEDED/$V; DST="$(cd "$(dirname "$0")/.." && pwd)/seeded/S$N-$ID-$V"
rm -rf "$DST"; mkdir -p "$DST"
cp "$SRC/patch.diff" "$DST/"; cp -r "$SRC/demo" "$DST/demo"; cp "$SRC/notes.md" "$DST/" 2>/dev/null || true
rm -rf "$DST/demo/target" "$DST/demo/Cargo.lock"
python3 - "$DST/meta.json" "S$N-$ID-$V" "$PROP" "$NEEDS" "$CONFIRM" "$DET" <<'PY'
import json,sys
path,i,prop,needs,confirm,det=sys.argv[1:7]
json.dump({"id":i,"breaks_property":prop,
 "author":"independent sub-agent (wave "+i[1]+") that saw only the property text and its own scratch worktree of /repo",
 "needs_to_manifest":needs,
 "confirmed_by_me":{"command":"tools/confirm_seeded2.sh (scratch worktree: git apply --check; demonstration without the patch; demonstration with the patch; cargo test --workspace --no-fail-fast --offline with the patch)","result":confirm},
 "detected_by":det,
 "how_to_rerun":"tools/sensitivity.sh seeded/%s/patch.diff %s"%(i,prop)},open(path,"w"),indent=1)
PY
echo kept $DST
