#!/usr/bin/env bash
# Sensitivity of one check to one property-breaking change.
#   tools/sensitivity.sh <patch file> <property id> [<cargo test package> ...]
# Applies the patch to /repo's working tree, optionally runs the given packages' own tests
# (the change must still pass them), runs the quick check of the property, replays the
# reported file, and restores /repo. Prints one result line.
set -u
ROOT="$(cd "$(dirname "${BASH_SOURCE[0]}")/.." && pwd)"
PATCH="$(realpath "$1")"; PROP="$2"; shift 2
if [ -n "$(git -C /repo status --porcelain --untracked-files=no)" ]; then
  echo "RESULT $(basename "$PATCH") $PROP: /repo working tree is not clean; refusing" ; exit 2
fi
restore() { git -C /repo checkout -- . ; }
trap restore EXIT
if ! git -C /repo apply "$PATCH"; then echo "RESULT $(basename "$PATCH") $PROP: patch does not apply"; exit 2; fi
tests="not run"
if [ $# -gt 0 ]; then
  tests="pass"
  for pkg in "$@"; do
    if ! (cd /repo && CARGO_NET_OFFLINE=true cargo test -p "$pkg" --offline >/dev/null 2>&1); then tests="FAIL($pkg)"; fi
  done
fi
start=$(date +%s)
out="$("$ROOT/check" "$PROP" --tier quick 2>&1)"; rc=$?
end=$(date +%s)
line="$(echo "$out" | grep -m1 '^VIOLATION' || true)"
replay_rc="-"
if [ $rc -eq 1 ] && [ -n "$line" ]; then
  f="${line##*replay=}"
  "$ROOT/check" --replay "$f" >/dev/null 2>&1; replay_rc=$?
  mkdir -p "$ROOT/mutants/replays"; cp "$f" "$ROOT/mutants/replays/$(basename "$PATCH" .patch)--$PROP.json" 2>/dev/null || true
fi
detail="$(echo "$out" | grep -m1 'minimised' | cut -c1-220 || true)"
echo "RESULT $(basename "$PATCH") $PROP: own-tests=$tests check-exit=$rc replay-exit=$replay_rc wall=$((end-start))s :: $detail"
