#!/usr/bin/env bash
# Builds every engine from files on disk only (offline).
set -eu
ROOT="$(cd "$(dirname "${BASH_SOURCE[0]}")" && pwd)"
export CARGO_NET_OFFLINE=true
mkdir -p "$ROOT/target" "$ROOT/evidence" "$ROOT/replays"
(cd "$ROOT/sim" && cargo build --release --offline)
echo "setup ok"
