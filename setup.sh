#!/usr/bin/env bash
# Builds every engine from files on disk only (offline).
set -eu
ROOT="$(cd "$(dirname "${BASH_SOURCE[0]}")" && pwd)"
export CARGO_NET_OFFLINE=true
mkdir -p "$ROOT/target" "$ROOT/evidence" "$ROOT/replays"
# LD_PRELOAD seam for std hash seeds
cc -O2 -shared -fPIC -o "$ROOT/preload/getrandom_shim.so" "$ROOT/preload/getrandom_shim.c" "$ROOT/preload/fsfault_shim.c" -ldl
(cd "$ROOT/sim" && cargo build --release --offline)
(cd "$ROOT/sim_intern" && cargo build --release --offline)

# Miri target of the C03 tier (cold start is ~1 min; do it here, not in the check)
"$ROOT/target/release/sim_pico" miri-prebuild || echo "warning: Miri prebuild failed (the C03 check will report it)"
# Miri target of the intern tier
(cd "$ROOT/sim" && MIRIFLAGS="-Zmiri-disable-isolation -Zmiri-tree-borrows" cargo +nightly miri run --offline --release -q -p sim_intern_miri -- --scenario intern --seed 0 >/dev/null 2>&1) || echo "warning: Miri prebuild of sim_intern_miri failed (the C05/C06 checks will report it)"
echo "setup ok"
