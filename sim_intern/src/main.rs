//! sim_intern: relay-crates/intern under shuttle's controlled scheduler (C05, C06).
//!
//! The crate's own sources are compiled against shuttle's atomics (hook H1) and
//! against shims of parking_lot / once_cell over shuttle's locks, so every
//! atomic operation, lock, try-lock and once in `AtomicArena`, `ShardedSet` and
//! `InternTable` is a scheduling point owned by the seeded scheduler.
//!
//!   sim_intern run --property C05|C06 --tier quick|thorough
//!   sim_intern worker --scenario arena|intern --base B --start a --count n [--loghash]
//!   sim_intern exec-json         case JSON on stdin -> {"failure":{kind,msg,schedule}|null}
//!   sim_intern replay <file>
//!   sim_intern selftest

use intern::intern::{AsInterned, InternId, InternTable, Ref as IRef};
use intern::verif_exports::{self as vx, AtomicArena, Ref};
use serde::{Deserialize, Serialize};
use serde_json::{json, Value};
use shuttle::scheduler::{PctScheduler, RandomScheduler};
use shuttle::{Config, FailurePersistence, MaxSteps, Runner};
use simcore::evidence::{verif_root, Evidence};
use simcore::rng::derive_seed;
use simcore::runner::{self, BatchConfig, BlockReport};
use simcore::Rng;
use std::borrow::Borrow;
use std::cell::Cell;
use std::collections::{BTreeMap, BTreeSet};
use std::panic::{catch_unwind, AssertUnwindSafe};
use std::path::PathBuf;
use std::sync::atomic::{AtomicU32 as StdAtomicU32, AtomicU64 as StdAtomicU64, Ordering as O};
use std::sync::Arc;

// ---------------------------------------------------------------------------
// cases
// ---------------------------------------------------------------------------

#[derive(Serialize, Deserialize, Clone, Debug, PartialEq)]
enum Sched {
    Random,
    Pct(usize),
}

#[derive(Serialize, Deserialize, Clone, Debug, PartialEq)]
struct ArenaThread {
    adds: u32,
    read_published: bool,
}

#[derive(Serialize, Deserialize, Clone, Debug, PartialEq)]
enum IOp {
    Intern(usize),
    GetInterned(usize),
    CheckPublished,
    Len,
}

#[derive(Serialize, Deserialize, Clone, Debug, PartialEq)]
enum Work {
    Arena {
        prefill: u32,
        threads: Vec<ArenaThread>,
    },
    Intern {
        pool: Vec<Vec<u8>>,
        /// values interned by the main thread before the others start
        prefill: Vec<usize>,
        threads: Vec<Vec<IOp>>,
    },
}

#[derive(Serialize, Deserialize, Clone, Debug, PartialEq)]
struct Case {
    work: Work,
    sched: Sched,
    sched_seed: u64,
    iterations: usize,
}

impl Case {
    fn canonical_hash(&self) -> u64 {
        simcore::fnv1a(serde_json::to_string(&self.work).unwrap().as_bytes())
            ^ self.sched_seed.rotate_left(17)
    }
}

const PREFILLS: [u32; 8] = [0, 1, 126, 127, 128, 129, 383, 384];

fn shard_of(v: &[u8]) -> usize {
    // mirrors ShardedSet::hash_and_shard for BuildHasherDefault<FnvHasher> over `Val`
    use std::hash::{Hash, Hasher};
    let mut h = fnv::FnvHasher::default();
    Val(v.to_vec()).hash(&mut h);
    ((h.finish() >> (64 - 7 - 6)) as usize) & 63
}

/// Pool of byte strings: some pairs share a shard (write-lock contention between
/// different values), some do not; lengths mix empty, short and long.
fn gen_pool(rng: &mut Rng) -> Vec<Vec<u8>> {
    let n = rng.range(2, 5) as usize;
    let mut pool: Vec<Vec<u8>> = Vec::new();
    let first: Vec<u8> = match rng.below(3) {
        0 => vec![],
        1 => vec![rng.below(256) as u8],
        _ => (0..rng.range(20, 40)).map(|_| rng.below(256) as u8).collect(),
    };
    pool.push(first);
    while pool.len() < n {
        let want_same_shard = rng.chance(1, 2);
        let target = shard_of(&pool[0]);
        let mut tries = 0;
        loop {
            tries += 1;
            let len = if rng.chance(1, 3) { rng.range(17, 30) } else { rng.range(1, 6) };
            let cand: Vec<u8> = (0..len).map(|_| rng.below(256) as u8).collect();
            if pool.contains(&cand) {
                continue;
            }
            if !want_same_shard || shard_of(&cand) == target || tries > 4000 {
                pool.push(cand);
                break;
            }
        }
    }
    pool
}

fn generate(seed: u64, scenario: &str) -> Case {
    let mut rng = Rng::new(seed);
    let sched = match rng.below(4) {
        0 => Sched::Pct(1),
        1 => Sched::Pct(2),
        2 => Sched::Pct(3),
        _ => Sched::Random,
    };
    let sched_seed = rng.next_u64();
    let iterations = 150;
    let work = if scenario == "arena" {
        let n_threads = rng.range(2, 3) as usize;
        let prefill = *rng.pick(&PREFILLS);
        let threads = (0..n_threads)
            .map(|_| ArenaThread {
                adds: rng.range(1, 4) as u32,
                read_published: rng.chance(1, 2),
            })
            .collect();
        Work::Arena { prefill, threads }
    } else {
        let pool = gen_pool(&mut rng);
        let n_threads = rng.range(2, 3) as usize;
        let prefill: Vec<usize> = (0..rng.below(3)).map(|_| rng.below(pool.len() as u64) as usize).collect();
        let threads = (0..n_threads)
            .map(|_| {
                (0..rng.range(1, 5))
                    .map(|_| {
                        let v = rng.below(pool.len() as u64) as usize;
                        match rng.weighted(&[6, 2, 2, 1]) {
                            0 => IOp::Intern(v),
                            1 => IOp::GetInterned(v),
                            2 => IOp::CheckPublished,
                            _ => IOp::Len,
                        }
                    })
                    .collect()
            })
            .collect();
        Work::Intern { pool, prefill, threads }
    };
    Case {
        work,
        sched,
        sched_seed,
        iterations,
    }
}

// ---------------------------------------------------------------------------
// arena iteration (C06)
// ---------------------------------------------------------------------------

struct Payload {
    id: u32,
    drops: Arc<Vec<StdAtomicU32>>,
}

impl Drop for Payload {
    fn drop(&mut self) {
        self.drops[self.id as usize].fetch_add(1, O::SeqCst);
    }
}

type ARef = Ref<'static, Payload>;

fn arena_iteration(prefill: u32, threads: &[ArenaThread]) {
    let total: u32 = prefill + threads.iter().map(|t| t.adds).sum::<u32>();
    let drops: Arc<Vec<StdAtomicU32>> = Arc::new((0..total).map(|_| StdAtomicU32::new(0)).collect());
    let arena: Arc<AtomicArena<'static, Payload>> = Arc::new(AtomicArena::new());
    let mut all: Vec<(ARef, u32)> = Vec::new();
    for id in 0..prefill {
        let r = arena.add(Payload {
            id,
            drops: drops.clone(),
        });
        all.push((r, id));
    }
    let published: Arc<shuttle::sync::Mutex<Vec<(ARef, u32)>>> =
        Arc::new(shuttle::sync::Mutex::new(all.clone()));
    let mut base = prefill;
    let mut handles = Vec::new();
    for plan in threads.iter().cloned() {
        let arena = arena.clone();
        let drops = drops.clone();
        let published = published.clone();
        let my_base = base;
        base += plan.adds;
        handles.push(shuttle::thread::spawn(move || {
            let mut mine: Vec<(ARef, u32)> = Vec::new();
            let mut last_len = 0usize;
            for j in 0..plan.adds {
                let id = my_base + j;
                let r = arena.add(Payload {
                    id,
                    drops: drops.clone(),
                });
                let got = arena.get(r).id;
                assert!(got == id, "C06 read-back: get(add(x)) read element {got}, added {id}");
                mine.push((r, id));
                published.lock().unwrap().push((r, id));
                let l = arena.len();
                assert!(l >= last_len, "C06 len: length decreased from {last_len} to {l}");
                assert!(
                    l >= prefill as usize + mine.len(),
                    "C06 len: length {l} smaller than {} completed additions",
                    prefill as usize + mine.len()
                );
                last_len = l;
                if plan.read_published {
                    let snap = published.lock().unwrap().clone();
                    for (r2, id2) in snap {
                        let got = arena.get(r2).id;
                        assert!(got == id2, "C06 read-back: published ref of {id2} read element {got}");
                    }
                }
            }
            mine
        }));
    }
    for h in handles {
        all.extend(h.join().unwrap());
    }
    let mut indices = BTreeSet::new();
    for (r, id) in &all {
        assert!(
            indices.insert(r.index()),
            "C06 uniqueness: reference index {} returned twice (element {id})",
            r.index()
        );
        let got = arena.get(*r).id;
        assert!(got == *id, "C06 read-back: after join ref of {id} read element {got}");
    }
    let want: BTreeSet<u32> = (0..total).collect();
    assert!(indices == want, "C06 density: indices {indices:?} are not 0..{total}");
    assert!(
        arena.len() == total as usize,
        "C06 len: length {} after {total} completed additions",
        arena.len()
    );
    for (i, d) in drops.iter().enumerate() {
        let n = d.load(O::SeqCst);
        assert!(n == 0, "C06 drop: element {i} dropped {n} times while the arena is alive");
    }
    drop(published);
    let arena = Arc::try_unwrap(arena).unwrap_or_else(|_| panic!("harness: arena still shared"));
    drop(arena);
    for (i, d) in drops.iter().enumerate() {
        let n = d.load(O::SeqCst);
        assert!(n == 1, "C06 drop: element {i} dropped {n} times by dropping the arena");
    }
}

// ---------------------------------------------------------------------------
// intern iteration (C05)
// ---------------------------------------------------------------------------

#[derive(Clone, Debug, PartialEq, Eq, Hash, PartialOrd, Ord)]
struct Val(Vec<u8>);

#[derive(Copy, Clone, Debug, PartialEq, Eq, Hash, PartialOrd, Ord)]
struct TId(IRef<Val>);

std::thread_local! {
    // shuttle runs every simulated thread as a coroutine on this one OS thread
    static TABLE: Cell<*const InternTable<TId, Val>> = const { Cell::new(std::ptr::null()) };
}

impl InternId for TId {
    type Intern = Val;
    type Lookup = Val;
    fn table() -> &'static InternTable<Self, Val> {
        let p = TABLE.with(|t| t.get());
        assert!(!p.is_null(), "harness: no table installed");
        // SAFETY: the table outlives every simulated thread of the iteration (freed after join)
        unsafe { &*p }
    }
    fn wrap(r: IRef<Val>) -> Self {
        TId(r)
    }
    fn unwrap(self) -> IRef<Val> {
        self.0
    }
}

impl Borrow<Val> for AsInterned<TId> {
    fn borrow(&self) -> &Val {
        self.0.get()
    }
}

fn intern_iteration(pool: &[Vec<u8>], prefill: &[usize], threads: &[Vec<IOp>]) {
    // When the pool's first value is the empty byte string the table is created like the
    // repository's string tables: `with_zero`, the empty value pre-interned as index 0 and
    // seeded into the shard set on first use (which then races with the first interns).
    let with_zero = pool[0].is_empty();
    let table: *mut InternTable<TId, Val> = if with_zero {
        // a `Zero` may back at most one arena, and an arena that uses it must never be dropped
        // (its first bucket is the `Zero`'s storage): both are leaked per schedule
        let zero: &'static intern::Zero<Val> = Box::leak(Box::new(intern::Zero::new(Val(Vec::new()))));
        Box::into_raw(Box::new(InternTable::with_zero(zero)))
    } else {
        Box::into_raw(Box::new(InternTable::new()))
    };
    TABLE.with(|t| t.set(table));
    let pool: Arc<Vec<Val>> = Arc::new(pool.iter().map(|b| Val(b.clone())).collect());
    let published: Arc<shuttle::sync::Mutex<Vec<(usize, TId)>>> = Arc::new(shuttle::sync::Mutex::new(Vec::new()));
    for v in prefill {
        let id = TId::intern(pool[*v].clone());
        published.lock().unwrap().push((*v, id));
    }
    let mut handles = Vec::new();
    for ops in threads.iter().cloned() {
        let pool = pool.clone();
        let published = published.clone();
        handles.push(shuttle::thread::spawn(move || {
            let mut mine: BTreeMap<usize, TId> = BTreeMap::new();
            let mut last_len = 0usize;
            for op in ops {
                match op {
                    IOp::Intern(v) => {
                        let id = TId::intern(pool[v].clone());
                        let back = id.get();
                        assert!(back == &pool[v], "C05 lookup: id of value #{v} looks up {back:?}");
                        if let Some(prev) = mine.get(&v) {
                            assert!(*prev == id, "C05 stability: value #{v} interned to {prev:?} and later to {id:?}");
                        }
                        // a dense index the moment it is handed out
                        let l = TId::table().len();
                        assert!((id.index() as usize) < l, "C05 density: id {id:?} of value #{v} was handed out while the table length is {l}");
                        assert!(TId::from_index_checked(id.index()) == Some(id), "C05 density: from_index_checked does not know the id {id:?} that intern just returned");
                        mine.insert(v, id);
                        published.lock().unwrap().push((v, id));
                    }
                    IOp::GetInterned(v) => {
                        let got = TId::get_interned(&pool[v]);
                        if let Some(id) = mine.get(&v) {
                            assert!(
                                got == Some(*id),
                                "C05 get_interned: value #{v} was interned here as {id:?}, get_interned says {got:?}"
                            );
                        }
                        if let Some(id) = got {
                            let back = id.get();
                            assert!(back == &pool[v], "C05 lookup: get_interned(#{v}) gave an id of {back:?}");
                        }
                    }
                    IOp::CheckPublished => {
                        let snap = published.lock().unwrap().clone();
                        for (v, id) in snap {
                            let back = id.get();
                            assert!(back == &pool[v], "C05 lookup: published id of #{v} looks up {back:?}");
                            let got = TId::get_interned(&pool[v]);
                            assert!(
                                got == Some(id),
                                "C05 bijection: value #{v} published as {id:?}, get_interned says {got:?}"
                            );
                        }
                    }
                    IOp::Len => {
                        let l = TId::table().len();
                        assert!(l >= last_len, "C05 density: table length decreased {last_len} -> {l}");
                        assert!(l >= mine.len(), "C05 density: table length {l} < {} values interned here", mine.len());
                        last_len = l;
                    }
                }
            }
        }));
    }
    for h in handles {
        h.join().unwrap();
    }
    let all = published.lock().unwrap().clone();
    let mut by_value: BTreeMap<usize, BTreeSet<TId>> = BTreeMap::new();
    for (v, id) in &all {
        by_value.entry(*v).or_default().insert(*id);
    }
    let mut seen_ids: BTreeMap<TId, usize> = BTreeMap::new();
    for (v, ids) in &by_value {
        assert!(ids.len() == 1, "C05 bijection: equal values #{v} interned to different ids {ids:?}");
        let id = *ids.iter().next().unwrap();
        if let Some(other) = seen_ids.insert(id, *v) {
            panic!("C05 bijection: different values #{other} and #{v} share id {id:?}");
        }
        assert!(id.get() == &pool[*v], "C05 lookup: after join id of #{v} looks up {:?}", id.get());
    }
    if with_zero {
        // the pre-interned empty value keeps its id, whoever interns it and whenever
        let zero_id = TId::wrap(intern::Zero::zero());
        if let Some(ids) = by_value.get(&0) {
            assert!(ids.contains(&zero_id) && ids.len() == 1, "C05 bijection: the pre-interned empty value was interned as {ids:?}");
        }
        assert!(zero_id.get() == &pool[0], "C05 lookup: the zero id looks up {:?}", zero_id.get());
        let got = TId::get_interned(&pool[0]);
        assert!(got == Some(zero_id), "C05 bijection: get_interned(empty) says {got:?}");
        by_value.entry(0).or_default().insert(zero_id);
        seen_ids.insert(zero_id, 0);
    }
    let distinct = by_value.len();
    let indices: BTreeSet<u32> = seen_ids.keys().map(|id| id.index()).collect();
    let want: BTreeSet<u32> = (0..distinct as u32).collect();
    assert!(indices == want, "C05 density: indices {indices:?} for {distinct} distinct values");
    let l = TId::table().len();
    assert!(l == distinct, "C05 density: table length {l} for {distinct} distinct values");
    for (id, v) in &seen_ids {
        assert!(TId::from_index_checked(id.index()) == Some(*id), "C05 density: from_index_checked round trip of #{v}");
    }
    drop(published);
    TABLE.with(|t| t.set(std::ptr::null()));
    if !with_zero {
        // SAFETY: all simulated threads are joined; nothing refers to the table any more
        drop(unsafe { Box::from_raw(table) });
    }
}

fn iteration(work: &Work) {
    match work {
        Work::Arena { prefill, threads } => arena_iteration(*prefill, threads),
        Work::Intern { pool, prefill, threads } => intern_iteration(pool, prefill, threads),
    }
}

// ---------------------------------------------------------------------------
// running a case under shuttle
// ---------------------------------------------------------------------------

#[derive(Serialize, Deserialize, Clone, Debug)]
struct Failure {
    kind: String,
    msg: String,
    schedule: String,
}

thread_local! {
    static LAST_PANIC: std::cell::RefCell<String> = const { std::cell::RefCell::new(String::new()) };
}

fn install_panic_recorder() {
    // shuttle chains to the previously installed hook; this one only records the message
    std::panic::set_hook(Box::new(|info| {
        let msg = if let Some(s) = info.payload().downcast_ref::<&str>() {
            s.to_string()
        } else if let Some(s) = info.payload().downcast_ref::<String>() {
            s.clone()
        } else {
            "panic".to_string()
        };
        LAST_PANIC.with(|p| {
            let mut p = p.borrow_mut();
            // keep the first message of a cascade (the assertion, not the join error)
            if p.is_empty() {
                *p = msg;
            }
        });
    }));
}

fn kind_of(msg: &str) -> String {
    // "C06 read-back: ..." -> "C06 read-back"
    match msg.split_once(':') {
        Some((head, _)) if head.starts_with("C0") => head.to_string(),
        _ => "panic".to_string(),
    }
}

fn scratch_dir() -> PathBuf {
    let d = verif_root()
        .join("target")
        .join("scratch")
        .join(format!("intern-{}", std::process::id()));
    let _ = std::fs::create_dir_all(&d);
    d
}

fn shuttle_config(dir: &std::path::Path) -> Config {
    let mut cfg = Config::new();
    cfg.failure_persistence = FailurePersistence::File(Some(dir.to_path_buf()));
    cfg.max_steps = MaxSteps::FailAfter(200_000);
    // ShardedSet::with_hasher builds its 64 shards on the stack; shuttle's default
    // coroutine stack (32 KiB) overflows there
    cfg.stack_size = 1 << 20;
    cfg.silence_warnings = true;
    cfg
}

/// Runs `case.iterations` schedules. Ok(iterations) or the first failure with its schedule.
fn run_case(case: &Case) -> Result<usize, Failure> {
    let dir = scratch_dir();
    for e in std::fs::read_dir(&dir).into_iter().flatten().flatten() {
        let _ = std::fs::remove_file(e.path());
    }
    LAST_PANIC.with(|p| p.borrow_mut().clear());
    let work = case.work.clone();
    let cfg = shuttle_config(&dir);
    let iterations = case.iterations;
    let seed = case.sched_seed;
    let sched = case.sched.clone();
    let res = catch_unwind(AssertUnwindSafe(move || match sched {
        Sched::Random => Runner::new(RandomScheduler::new_from_seed(seed, iterations), cfg).run(move || iteration(&work)),
        Sched::Pct(d) => Runner::new(PctScheduler::new_from_seed(seed, d, iterations), cfg).run(move || iteration(&work)),
    }));
    match res {
        Ok(n) => Ok(n),
        Err(_) => {
            TABLE.with(|t| t.set(std::ptr::null()));
            let msg = LAST_PANIC.with(|p| p.borrow().clone());
            let mut schedule = String::new();
            for e in std::fs::read_dir(&dir).into_iter().flatten().flatten() {
                if let Ok(s) = std::fs::read_to_string(e.path()) {
                    schedule = s;
                }
                let _ = std::fs::remove_file(e.path());
            }
            Err(Failure {
                kind: kind_of(&msg),
                msg,
                schedule,
            })
        }
    }
}

/// Replays one explicit schedule; Some(message) if it panics.
fn replay_schedule(work: &Work, schedule: &str) -> Option<String> {
    LAST_PANIC.with(|p| p.borrow_mut().clear());
    let work = work.clone();
    let schedule = schedule.to_string();
    let res = catch_unwind(AssertUnwindSafe(move || {
        // (not shuttle::replay: it uses the default 32 KiB coroutine stacks)
        let mut cfg = shuttle_config(&scratch_dir());
        cfg.failure_persistence = FailurePersistence::None;
        let sched = shuttle::scheduler::ReplayScheduler::new_from_encoded(&schedule);
        Runner::new(sched, cfg).run(move || iteration(&work));
    }));
    match res {
        Ok(()) => None,
        Err(_) => {
            TABLE.with(|t| t.set(std::ptr::null()));
            Some(LAST_PANIC.with(|p| p.borrow().clone()))
        }
    }
}

fn probes() -> [u64; 5] {
    let mut out = [0u64; 5];
    for (i, p) in vx::PROBES.iter().enumerate() {
        out[i] = p.load(O::Relaxed);
    }
    out
}
const PROBE_NAMES: [&str; 5] = [
    "probe.arena_slow_path",
    "probe.arena_slow_path_lost_race",
    "probe.shard_try_write_failed",
    "probe.shard_found_under_read_lock",
    "probe.shard_found_under_write_lock",
];

// ---------------------------------------------------------------------------
// CLI
// ---------------------------------------------------------------------------

fn arg_value(args: &[String], name: &str) -> Option<String> {
    args.iter().position(|a| a == name).and_then(|i| args.get(i + 1).cloned())
}
fn arg_u64(args: &[String], name: &str, default: u64) -> u64 {
    arg_value(args, name).and_then(|s| s.parse().ok()).unwrap_or(default)
}
fn salt(scenario: &str) -> u64 {
    if scenario == "arena" {
        0xA5A5
    } else {
        0x5A5A
    }
}
fn property_of(scenario: &str) -> &'static str {
    if scenario == "arena" {
        "C06"
    } else {
        "C05"
    }
}

static STEPS: StdAtomicU64 = StdAtomicU64::new(0);

fn worker(args: &[String]) {
    let scenario = arg_value(args, "--scenario").unwrap_or_default();
    let base = arg_u64(args, "--base", 0);
    let start = arg_u64(args, "--start", 0);
    let count = arg_u64(args, "--count", 0);
    let loghash = args.iter().any(|a| a == "--loghash");
    let mut rep = BlockReport::default();
    let p0 = probes();
    for index in start..start + count {
        rep.begin_run(index);
        let seed = derive_seed(base ^ salt(&scenario), index);
        let case = generate(seed, &scenario);
        let before = probes();
        let res = run_case(&case);
        let after = probes();
        rep.count("runs", 1);
        match &res {
            Ok(n) => {
                rep.count("schedules", *n as u64);
                let boundary = match &case.work {
                    Work::Arena { prefill, threads } => {
                        let adds: u32 = threads.iter().map(|t| t.adds).sum();
                        // the concurrent additions straddle a bucket boundary (128, 384 elements)
                        [128u32, 384].iter().any(|b| *prefill < *b && prefill + adds > *b) || *prefill == 0
                    }
                    Work::Intern { pool, threads, .. } => {
                        // at least two threads intern the same value, or two values of one shard
                        let mut per_thread: Vec<BTreeSet<usize>> = Vec::new();
                        for t in threads {
                            per_thread.push(t.iter().filter_map(|o| if let IOp::Intern(v) = o { Some(*v) } else { None }).collect());
                        }
                        let mut hit = false;
                        for a in 0..per_thread.len() {
                            for b in a + 1..per_thread.len() {
                                for x in &per_thread[a] {
                                    for y in &per_thread[b] {
                                        if x == y || shard_of(&pool[*x]) == shard_of(&pool[*y]) {
                                            hit = true;
                                        }
                                    }
                                }
                            }
                        }
                        hit
                    }
                };
                let raced = after[1] > before[1] || after[2] > before[2];
                if boundary {
                    rep.count("cases_with_contention_by_construction", 1);
                }
                if raced {
                    rep.count("cases_with_observed_race", 1);
                }
                if boundary || raced {
                    rep.nontrivial_case(case.canonical_hash());
                    if rep.samples.len() < 2 {
                        rep.sample(serde_json::to_value(&case).unwrap());
                    }
                }
            }
            Err(f) => {
                let v = json!({"engine": "sim_intern", "scenario": scenario, "index": index, "seed": seed,
                    "property": property_of(&scenario), "kind": f.kind, "detail": f.msg,
                    "schedule": f.schedule, "case": case});
                rep.violation(&v);
            }
        }
        if loghash {
            let h = match &res {
                Ok(n) => simcore::fnv1a(format!("ok{n}:{:?}", [after[0] - before[0], after[1] - before[1], after[2] - before[2], after[3] - before[3], after[4] - before[4]]).as_bytes()),
                Err(f) => simcore::fnv1a(format!("{}|{}", f.msg, f.schedule).as_bytes()),
            };
            rep.loghash(index, h);
        }
    }
    let p1 = probes();
    for i in 0..5 {
        rep.count(PROBE_NAMES[i], p1[i] - p0[i]);
    }
    let _ = STEPS.load(O::Relaxed);
    rep.finish();
}

fn exec_json() {
    let mut text = String::new();
    use std::io::Read as _;
    std::io::stdin().read_to_string(&mut text).ok();
    let v: Value = serde_json::from_str(&text).unwrap_or_else(|e| simcore::harness_error(&format!("exec-json: {e}")));
    let case: Case = serde_json::from_value(v["case"].clone()).unwrap_or_else(|e| simcore::harness_error(&format!("exec-json: {e}")));
    let out = if let Some(s) = v["schedule"].as_str() {
        // replay of one explicit schedule
        match replay_schedule(&case.work, s) {
            Some(msg) => json!({"failure": {"kind": kind_of(&msg), "msg": msg, "schedule": s}}),
            None => json!({"failure": null}),
        }
    } else {
        match run_case(&case) {
            Ok(n) => json!({"failure": null, "schedules": n}),
            Err(f) => json!({"failure": f}),
        }
    };
    println!("{}", serde_json::to_string(&out).unwrap());
}

fn child(case: &Case, schedule: Option<&str>) -> Option<Failure> {
    let exe = std::env::current_exe().unwrap();
    let input = json!({"case": case, "schedule": schedule});
    let (status, stdout) = runner::run_child_with_stdin(&exe, &["exec-json".to_string()], &input.to_string(), &[]);
    if status != "ok" {
        if status.contains("exit status: 2") {
            simcore::harness_error("exec-json child reported a harness error");
        }
        return Some(Failure {
            kind: "crash".into(),
            msg: status,
            schedule: schedule.unwrap_or("").to_string(),
        });
    }
    let v: Value = serde_json::from_str(stdout.lines().last().unwrap_or("")).unwrap_or(Value::Null);
    serde_json::from_value(v["failure"].clone()).ok().flatten()
}

fn simpler_cases(c: &Case) -> Vec<Case> {
    let mut out = Vec::new();
    match &c.work {
        Work::Arena { prefill, threads } => {
            if threads.len() > 2 {
                for i in 0..threads.len() {
                    let mut t = threads.clone();
                    t.remove(i);
                    out.push(Case { work: Work::Arena { prefill: *prefill, threads: t }, ..c.clone() });
                }
            }
            for i in 0..threads.len() {
                if threads[i].adds > 1 {
                    let mut t = threads.clone();
                    t[i].adds -= 1;
                    out.push(Case { work: Work::Arena { prefill: *prefill, threads: t }, ..c.clone() });
                }
                if threads[i].read_published {
                    let mut t = threads.clone();
                    t[i].read_published = false;
                    out.push(Case { work: Work::Arena { prefill: *prefill, threads: t }, ..c.clone() });
                }
            }
            for p in PREFILLS.iter().filter(|p| **p < *prefill) {
                out.push(Case { work: Work::Arena { prefill: *p, threads: threads.clone() }, ..c.clone() });
            }
        }
        Work::Intern { pool, prefill, threads } => {
            if threads.len() > 2 {
                for i in 0..threads.len() {
                    let mut t = threads.clone();
                    t.remove(i);
                    out.push(Case { work: Work::Intern { pool: pool.clone(), prefill: prefill.clone(), threads: t }, ..c.clone() });
                }
            }
            for i in 0..threads.len() {
                for j in 0..threads[i].len() {
                    if threads[i].len() > 1 {
                        let mut t = threads.clone();
                        t[i].remove(j);
                        out.push(Case { work: Work::Intern { pool: pool.clone(), prefill: prefill.clone(), threads: t }, ..c.clone() });
                    }
                }
            }
            for j in 0..prefill.len() {
                let mut p = prefill.clone();
                p.remove(j);
                out.push(Case { work: Work::Intern { pool: pool.clone(), prefill: p, threads: threads.clone() }, ..c.clone() });
            }
        }
    }
    out
}

/// Greedy case minimisation: a candidate is kept if some schedule within a larger
/// iteration budget fails with the same kind.
fn minimise(case: Case, kind: &str) -> (Case, Failure, usize) {
    let mut cur = case;
    cur.iterations = cur.iterations.max(3000);
    let mut fail = child(&cur, None).filter(|f| f.kind == kind);
    let mut used = 1;
    if fail.is_none() {
        // keep the original budget's failure
        cur.iterations = 150;
        fail = child(&cur, None);
    }
    let mut progress = true;
    while progress && used < 300 {
        progress = false;
        for cand in simpler_cases(&cur) {
            used += 1;
            if let Some(f) = child(&cand, None) {
                if f.kind == kind {
                    cur = cand;
                    fail = Some(f);
                    progress = true;
                    break;
                }
            }
            if used >= 300 {
                break;
            }
        }
    }
    let f = fail.unwrap_or_else(|| simcore::harness_error("violation does not reproduce in a fresh process"));
    (cur, f, used)
}

fn replay(path: &str) -> i32 {
    let text = std::fs::read_to_string(path).unwrap_or_else(|e| simcore::harness_error(&format!("{path}: {e}")));
    let v: Value = serde_json::from_str(&text).unwrap_or_else(|e| simcore::harness_error(&format!("{path}: {e}")));
    let property = v["expect"]["property"].as_str().unwrap_or("");
    let kind = v["expect"]["kind"].as_str().unwrap_or("");
    if v["miri"].as_bool() == Some(true) {
        // re-run the same workload under the same range of Miri seeds
        let sim_dir = verif_root().join("sim");
        let scenario = v["scenario"].as_str().unwrap_or("arena");
        let wseed = v["seed"].as_u64().unwrap_or(0);
        let mseeds = v["miri_seeds"].as_u64().unwrap_or(16);
        let ok = std::process::Command::new("cargo")
            .current_dir(&sim_dir)
            .args(["+nightly", "miri", "run", "--offline", "--release", "-q", "-p", "sim_intern_miri", "--", "--scenario", scenario, "--seed", &wseed.to_string()])
            .env("MIRIFLAGS", format!("-Zmiri-disable-isolation -Zmiri-tree-borrows -Zmiri-preemption-rate=0.1 -Zmiri-many-seeds=0..{mseeds}"))
            .env("CARGO_NET_OFFLINE", "true")
            .status()
            .map(|s| s.success())
            .unwrap_or(true);
        return if ok {
            println!("replay: {path}: Miri completes every seed without an error");
            simcore::EXIT_OK
        } else {
            println!("VIOLATION property={property} replay={path}");
            simcore::EXIT_VIOLATION
        };
    }
    let case: Case = serde_json::from_value(v["case"].clone()).unwrap_or_else(|e| simcore::harness_error(&format!("{path}: {e}")));
    match child(&case, v["schedule"].as_str()) {
        Some(f) if f.kind == kind => {
            println!("replay: {}", f.msg);
            println!("VIOLATION property={property} replay={path}");
            simcore::EXIT_VIOLATION
        }
        Some(f) => {
            println!("replay: different failure ({}): {}", f.kind, f.msg);
            simcore::EXIT_OK
        }
        None => {
            println!("replay: {path}: the recorded schedule completes without a violation");
            simcore::EXIT_OK
        }
    }
}

fn run(args: &[String]) -> i32 {
    let property = arg_value(args, "--property").unwrap_or_default();
    let scenario = match property.as_str() {
        "C06" => "arena",
        "C05" => "intern",
        _ => simcore::harness_error("sim_intern serves C05 and C06"),
    };
    let tier = arg_value(args, "--tier").or_else(|| std::env::var("VERIF_TIER").ok()).unwrap_or_else(|| "quick".into());
    let seed = simcore::env_u64("VERIF_SEED", 0);
    let workers = simcore::env_u64("VERIF_WORKERS", 16) as usize;
    let cases: u64 = arg_value(args, "--cases").and_then(|s| s.parse().ok()).unwrap_or(if tier == "thorough" { 120_000 } else { 1_600 });
    let root = verif_root();
    println!("sim_intern property={property} tier={tier} VERIF_SEED={seed} cases={cases} (150 schedules each)");
    let start = std::time::Instant::now();
    let cfg = BatchConfig {
        exe: std::env::current_exe().unwrap(),
        worker_args: vec!["worker".into(), "--scenario".into(), scenario.into(), "--base".into(), seed.to_string()],
        total_runs: cases,
        block: if tier == "thorough" { 500 } else { 25 },
        workers,
        max_wall_s: simcore::env_u64("VERIF_MAX_WALL_S", if tier == "thorough" { 2400 } else { 150 }) as f64,
        max_violations: 8,
        env: vec![],
    };
    let out = runner::run_batch(&cfg);
    let mut exit = simcore::EXIT_OK;
    let mut reported = 0u64;
    let mut first: Option<(Case, String, u64)> = out.violations.first().map(|v| {
        (
            serde_json::from_value(v["case"].clone()).expect("case"),
            v["kind"].as_str().unwrap_or("").to_string(),
            v["seed"].as_u64().unwrap_or(0),
        )
    });
    if first.is_none() {
        if let Some(c) = out.crashes.first() {
            match c.index {
                Some(index) => {
                    let s = derive_seed(seed ^ salt(scenario), index);
                    println!("  worker died ({}) in case index {index}", c.status);
                    first = Some((generate(s, scenario), "crash".into(), s));
                }
                None => simcore::harness_error(&format!("worker died before its first case: {} {}", c.status, c.stderr_tail)),
            }
        }
    }
    if let Some((case, kind, vseed)) = first {
        println!("  violation kind={kind} seed={vseed:#x}; minimising");
        let (min, f, used) = minimise(case, &kind);
        println!("  minimised with {used} candidate executions: {}", f.msg);
        let dir = root.join("replays");
        let _ = std::fs::create_dir_all(&dir);
        let path = dir.join(format!("{property}-sim_intern-{scenario}-{vseed:016x}.json"));
        let v = json!({"engine": "sim_intern", "scenario": scenario, "property": property, "seed": vseed,
            "expect": {"property": property, "kind": f.kind}, "detail": f.msg, "schedule": f.schedule, "case": min});
        std::fs::write(&path, serde_json::to_string_pretty(&v).unwrap()).expect("write replay");
        // the recorded schedule must reproduce in a fresh process
        match child(&min, Some(&f.schedule)) {
            Some(f2) if f2.kind == f.kind => {}
            _ => simcore::harness_error("recorded schedule does not reproduce the violation in a fresh process"),
        }
        println!("VIOLATION property={property} replay={}", path.display());
        exit = simcore::EXIT_VIOLATION;
        reported += 1;
    }
    // ---- Miri tier (weak memory, data races) ----
    let mut miri_json = json!({"ran": false});
    if std::env::var("VERIF_NO_MIRI").is_err() {
        let (workloads, mseeds) = if tier == "thorough" { (48u64, 64u64) } else { (3u64, 16u64) };
        let t0 = std::time::Instant::now();
        let (done, scheds, failure) = miri_tier(scenario, seed, workloads, mseeds);
        println!("  miri tier: {done} workloads x {mseeds} Miri seeds = {scheds} schedules, wall={:.1}s", t0.elapsed().as_secs_f64());
        miri_json = json!({"ran": true, "workloads": done, "miri_seeds_per_workload": mseeds, "schedules": scheds,
            "flags": "-Zmiri-disable-isolation -Zmiri-tree-borrows -Zmiri-preemption-rate=0.1 -Zmiri-many-seeds", "wall_s": t0.elapsed().as_secs_f64(),
            "what": "unmodified intern crate (std atomics, parking_lot, once_cell) on OS threads under Miri's scheduler, data-race detector and weak-memory emulation"});
        if let Some((wseed, excerpt)) = failure {
            println!("  Miri reports a failure for workload seed {wseed:#x}:\n{excerpt}");
            let dir = root.join("replays");
            let _ = std::fs::create_dir_all(&dir);
            let path = dir.join(format!("{property}-sim_intern-miri-{scenario}-{wseed:016x}.json"));
            let v = json!({"engine": "sim_intern", "scenario": scenario, "property": property, "seed": wseed, "miri": true,
                "miri_seeds": mseeds, "expect": {"property": property, "kind": "miri-failure"}, "detail": excerpt});
            std::fs::write(&path, serde_json::to_string_pretty(&v).unwrap()).expect("write replay");
            println!("VIOLATION property={property} replay={}", path.display());
            exit = simcore::EXIT_VIOLATION;
            reported += 1;
        }
    }

    let wall = start.elapsed().as_secs_f64();
    let schedules = out.counters.get("schedules").copied().unwrap_or(0);
    let mut extra = serde_json::Map::new();
    let mut probes = serde_json::Map::new();
    let mut other = serde_json::Map::new();
    for (k, v) in &out.counters {
        if let Some(n) = k.strip_prefix("probe.") {
            probes.insert(n.to_string(), json!(v));
        } else {
            other.insert(k.clone(), json!(v));
        }
    }
    extra.insert("miri_tier".into(), miri_json);
    extra.insert("schedules_explored".into(), json!(schedules));
    extra.insert("probes".into(), Value::Object(probes));
    extra.insert("counters".into(), Value::Object(other));
    extra.insert("faults_fired".into(), json!({"preemption_points": "every atomic, lock, try-lock and once inside the crate is a scheduling point; the seeded scheduler (Random, PCT depth 1-3) decides every one"}));
    extra.insert("runs_per_hour".into(), json!((schedules as f64 / wall.max(0.001) * 3600.0) as u64));
    extra.insert("seeds".into(), json!(format!("VERIF_SEED={seed}; case i uses derive_seed(VERIF_SEED ^ salt, i) for the workload and the scheduler seed")));
    extra.insert("components_real".into(), json!(["relay-crates/intern sources: AtomicArena (add/get/len/Drop), ShardedSet (get_or_insert_lock/get/InsertLock), InternTable (intern/get_interned/get/len/shards init)"]));
    extra.insert("components_stubbed".into(), json!(["parking_lot::{Mutex,RwLock} -> shim over shuttle::sync", "once_cell::sync::{OnceCell,Lazy} -> shim over shuttle::sync", "std::sync::atomic::{AtomicU32,AtomicPtr} -> shuttle::sync::atomic (sequentially consistent: weak-memory effects are not explored here)"]));
    let rule = if scenario == "arena" {
        "one case = prefill in {0,1,126,127,128,129,383,384} + 2-3 threads x 1-4 additions (+ reads of published refs) run under 150 seeded schedules (Random or PCT depth 1-3); assertions during the run (read-back, monotone length) and after join (refs pairwise distinct, indices exactly 0..total, len == total, drop counters exactly once). Non-trivial: the concurrent additions straddle or open a bucket (prefill 0 or crossing 128/384) or the slow path was observed to lose the allocation race. Distinct = distinct (workload, scheduler seed) hash."
    } else {
        "one case = pool of 2-5 byte-string values (some sharing a shard, empty/short/long) + optional prefill + 2-3 threads x 1-5 ops (intern / get_interned / check published ids / len) on a fresh InternTable, run under 150 seeded schedules; assertions: lookup(id)==value, equal values <=> equal ids, get_interned after intern, dense stable indices, len == distinct. Non-trivial: two threads intern equal values or values of one shard, or a try_write failure was observed. Distinct = distinct (workload, scheduler seed) hash."
    };
    let ev = Evidence {
        property_id: property.clone(),
        tier: tier.clone(),
        seed,
        level: "exploration".into(),
        evaluations: schedules.max(out.runs_done),
        distinct_nontrivial: out.distinct_nontrivial,
        rule: rule.into(),
        samples: out.samples.clone(),
        extra,
        assumptions: vec![
            "shuttle is sequentially consistent; memory-ordering mistakes are visible only to the Miri tier (not part of this check)".into(),
            "the parking_lot / once_cell shims behave like the real crates at the API level".into(),
            "for C05 only the schedule clauses are decided here (fresh tables of a harness-defined InternId); string ordering, paths and serde round trips are input-sampling clauses and are not claimed by this check".into(),
        ],
        wall_s: wall,
        violations: reported,
    };
    ev.write(&root);
    println!("sim_intern property={property} cases={} schedules={schedules} distinct_nontrivial={} wall={wall:.1}s exit={exit}", out.runs_done, out.distinct_nontrivial);
    exit
}

/// Miri tier: the UNMODIFIED intern crate (std atomics, parking_lot, once_cell) on OS threads,
/// interpreted by Miri, whose scheduler supplies the interleavings (`-Zmiri-many-seeds`) and
/// whose data-race detector and weak-memory emulation see what shuttle cannot.
/// Returns (workloads run, schedules run, first failure as (workload seed, output excerpt)).
fn miri_tier(scenario: &str, base: u64, workloads: u64, miri_seeds: u64) -> (u64, u64, Option<(u64, String)>) {
    let sim_dir = verif_root().join("sim");
    let mut done = 0;
    for i in 0..workloads {
        let wseed = derive_seed(base ^ 0x3141_5926, i);
        let out = std::process::Command::new("cargo")
            .current_dir(&sim_dir)
            .args(["+nightly", "miri", "run", "--offline", "--release", "-q", "-p", "sim_intern_miri", "--", "--scenario", scenario, "--seed", &wseed.to_string()])
            .env("MIRIFLAGS", format!("-Zmiri-disable-isolation -Zmiri-tree-borrows -Zmiri-preemption-rate=0.1 -Zmiri-many-seeds=0..{miri_seeds}"))
            .env("CARGO_NET_OFFLINE", "true")
            .output();
        match out {
            Err(e) => simcore::harness_error(&format!("cannot run cargo miri: {e}")),
            Ok(o) if o.status.success() => done += 1,
            Ok(o) => {
                let err = String::from_utf8_lossy(&o.stderr);
                if err.contains("could not compile") || err.contains("error: no such command") {
                    simcore::harness_error(&format!("Miri tier cannot be built: {}", err.lines().rev().take(6).collect::<Vec<_>>().join(" | ")));
                }
                let lines: Vec<&str> = err.lines().collect();
                let pos = lines.iter().position(|l| l.contains("Undefined Behavior") || l.contains("panicked at") || l.starts_with("error")).unwrap_or(lines.len().saturating_sub(12));
                let excerpt = lines[pos..(pos + 14).min(lines.len())].join("\n");
                return (done, done * miri_seeds, Some((wseed, excerpt)));
            }
        }
    }
    (done, done * miri_seeds, None)
}

fn selftest(args: &[String]) -> i32 {
    let runs = arg_u64(args, "--runs", 300);
    let mut bad = 0;
    for scenario in ["arena", "intern"] {
        let mut maps = Vec::new();
        for (workers, block) in [(1usize, runs), (16usize, 7)] {
            let cfg = BatchConfig {
                exe: std::env::current_exe().unwrap(),
                worker_args: vec!["worker".into(), "--scenario".into(), scenario.into(), "--base".into(), "7".into(), "--loghash".into()],
                total_runs: runs,
                block,
                workers,
                max_wall_s: 0.0,
                max_violations: usize::MAX,
                env: vec![],
            };
            maps.push(runner::run_batch(&cfg).loghashes);
        }
        let diff = maps[0].iter().filter(|(k, v)| maps[1].get(k) != Some(v)).count();
        println!("selftest scenario={scenario} cases={runs} compared={} mismatches={diff}", maps[0].len().min(maps[1].len()));
        if diff > 0 || maps[0].len() != runs as usize || maps[1].len() != runs as usize {
            bad += 1;
        }
    }
    if bad > 0 {
        simcore::EXIT_HARNESS
    } else {
        simcore::EXIT_OK
    }
}

fn main() {
    let args: Vec<String> = std::env::args().collect();
    let code = match args.get(1).map(|s| s.as_str()).unwrap_or("") {
        "run" => run(&args),
        "worker" => {
            install_panic_recorder();
            worker(&args);
            0
        }
        "exec-json" => {
            install_panic_recorder();
            exec_json();
            0
        }
        "replay" => replay(args.get(2).map(|s| s.as_str()).unwrap_or("")),
        "selftest" => selftest(&args),
        _ => {
            eprintln!("usage: sim_intern run|worker|exec-json|replay|selftest");
            simcore::EXIT_HARNESS
        }
    };
    std::process::exit(code);
}
