/* LD_PRELOAD seam for file-system system calls (second half of the preload library).
 *
 * The artifact writer of isograph talks to the disk through std::fs, i.e. through the libc
 * entry points open64 / openat64 / write / unlink / unlinkat / mkdir / rmdir / rename and
 * the stat family. With this library preloaded the simulator can number every such call
 * that concerns a path below one directory (the artifact directory of the simulated
 * project) and decide the outcome of call number `at`:
 *
 *   K_ERR          the call is not performed and fails with errno `err`
 *   K_ERR_AFTER    the call is performed and then reported as failed (lost acknowledgement)
 *   K_FREEZE       from this call on every mutating call fails with EIO and nothing reaches
 *                  the disk any more: the disk as it is when the process is killed at this
 *                  system call (the harness discards the process state afterwards)
 *   K_TORN         write(): half of the bytes are written (short count), the next write to
 *                  the same descriptor fails with `err`; other calls: as K_ERR
 *   K_TORN_FREEZE  write(): half of the bytes are written, then the disk freezes
 *   K_SHORT        benign: every write() transfers at most `param` bytes (legal short
 *                  writes; the caller has to loop)
 *   K_EINTR        benign: open64()/write() number `at` fails once with EINTR
 *   K_FULL         from call `at` on every write() fails with ENOSPC (full disk); directory
 *                  operations and unlink keep working
 *
 * Unarmed (the default, and always outside the window the harness opens around one
 * compile) every function is a plain pass-through. Single threaded by construction: the
 * simulated world runs on one thread.
 */
#define _GNU_SOURCE
#include <dirent.h>
#include <dlfcn.h>
#include <errno.h>
#include <fcntl.h>
#include <stdarg.h>
#include <stdint.h>
#include <stdio.h>
#include <string.h>
#include <sys/stat.h>
#include <sys/types.h>
#include <unistd.h>

enum { K_NONE = 0, K_ERR = 1, K_ERR_AFTER = 2, K_FREEZE = 3, K_TORN = 4, K_TORN_FREEZE = 5, K_SHORT = 6, K_EINTR = 7, K_FULL = 8 };
enum { C_OBSERVE = 0, C_MUTATE = 1, C_WRITE = 2, C_OPENW = 3 };

#define FDMAX 4096
#define T_FILE 1
#define T_DIR 2

static int armed;
static char prefix[4096];
static size_t plen;
static long counter, at;
static int kind, err, param;
static int fired, fired_class, frozen, full, torn_fd = -1, torn_err;
static long n_mutating, n_observing, n_failed, n_real_failed;
static unsigned char tracked[FDMAX];
static char fired_what[64];
static char logbuf[32768];
static size_t loglen;
static uint64_t loghash;

static void log_call(long idx, const char *what, const char *name) {
    char line[512];
    int n = snprintf(line, sizeof line, "%ld %s %s\n", idx, what, name ? name : "");
    if (n < 0) return;
    if ((size_t)n >= sizeof line) n = sizeof line - 1;
    for (int i = 0; i < n; i++) {
        loghash = (loghash ^ (unsigned char)line[i]) * 0x100000001b3ULL;
    }
    if (loglen + (size_t)n < sizeof logbuf) {
        memcpy(logbuf + loglen, line, (size_t)n);
        loglen += (size_t)n;
    }
}

static int under_prefix(const char *path) {
    if (!armed || !path || plen == 0) return 0;
    if (strncmp(path, prefix, plen) != 0) return 0;
    return path[plen] == 0 || path[plen] == '/';
}

static const char *rel(const char *path) {
    if (path && strncmp(path, prefix, plen) == 0) {
        const char *r = path + plen;
        while (*r == '/') r++;
        return *r ? r : ".";
    }
    return path;
}

static int fd_tracked(int fd) { return armed && fd >= 0 && fd < FDMAX ? tracked[fd] : 0; }
static void track(int fd, int t) { if (fd >= 0 && fd < FDMAX) tracked[fd] = (unsigned char)t; }

/* control interface (looked up by the harness with dlsym) */
void verif_fsfault_arm(const char *dir, long at_index, int fault_kind, int errno_value, int parameter) {
    memset(tracked, 0, sizeof tracked);
    strncpy(prefix, dir, sizeof prefix - 1);
    prefix[sizeof prefix - 1] = 0;
    plen = strlen(prefix);
    while (plen > 1 && prefix[plen - 1] == '/') prefix[--plen] = 0;
    counter = 0; at = at_index; kind = fault_kind; err = errno_value; param = parameter;
    fired = 0; fired_class = -1; frozen = 0; full = 0; torn_fd = -1; torn_err = 0;
    n_mutating = n_observing = n_failed = n_real_failed = 0;
    fired_what[0] = 0; loglen = 0; loghash = 0xcbf29ce484222325ULL;
    armed = 1;
}

/* inside an open window: the fault hits call number (calls seen so far + rel_index) */
void verif_fsfault_set_relative(long rel_index, int fault_kind, int errno_value, int parameter) {
    if (!armed) return;
    at = counter + rel_index; kind = fault_kind; err = errno_value; param = parameter;
    fired = 0; fired_class = -1;
}

/* out[0]=calls seen, out[1]=fired, out[2]=mutating calls, out[3]=observing calls,
 * out[4]=calls failed by the shim, out[5]=log hash, out[6]=class of the call the fault hit,
 * out[7]=mutating calls that failed for real (not injected; mkdir EEXIST is not a failure) */
void verif_fsfault_disarm(long *out) {
    armed = 0;
    if (out) {
        out[0] = counter; out[1] = fired; out[2] = n_mutating; out[3] = n_observing;
        out[4] = n_failed; out[5] = (long)loghash; out[6] = fired_class; out[7] = n_real_failed;
    }
}

size_t verif_fsfault_log(char *buf, size_t cap) {
    size_t n = loglen < cap ? loglen : cap;
    memcpy(buf, logbuf, n);
    return n;
}

size_t verif_fsfault_fired_what(char *buf, size_t cap) {
    size_t n = strlen(fired_what);
    if (n > cap) n = cap;
    memcpy(buf, fired_what, n);
    return n;
}

void verif_fsfault_mark(long op_index, const char *text) {
    if (armed) {
        char what[32];
        snprintf(what, sizeof what, "== op %ld", op_index);
        log_call(-1, what, text);
    }
}

/* a mutating call failed on its own (nothing injected): the operating system refused it */
static void real_failure(const char *what) {
    int e = errno;
    n_real_failed++;
    char text[48];
    snprintf(text, sizeof text, "errno=%d", e);
    log_call(-2, what, text);
    errno = e;
}

#define D_PROCEED 0
#define D_FAIL 1       /* do not perform, fail with errno already set */
#define D_THEN_FAIL 2  /* perform, then fail with errno = err */
#define D_TORN 3       /* write only: transfer half */

static int fail_with(int e) { errno = e; n_failed++; return D_FAIL; }

static int decide(int cls, const char *what, const char *name) {
    long idx = counter++;
    log_call(idx, what, name);
    if (cls == C_OBSERVE) n_observing++; else n_mutating++;
    if (frozen && cls != C_OBSERVE) return fail_with(EIO);
    if (full && cls == C_WRITE) return fail_with(ENOSPC);
    if (fired || idx != at || kind == K_NONE || kind == K_SHORT) return D_PROCEED;
    int k = kind;
    if (k == K_EINTR && !(cls == C_WRITE || cls == C_OPENW)) return D_PROCEED; /* not applicable here */
    if (k == K_TORN && cls != C_WRITE) k = K_ERR;
    if (k == K_TORN_FREEZE && cls != C_WRITE) k = K_FREEZE;
    if ((k == K_ERR_AFTER) && cls == C_OBSERVE) k = K_ERR;
    fired = 1; fired_class = cls;
    snprintf(fired_what, sizeof fired_what, "%s", what);
    switch (k) {
    case K_ERR: return fail_with(err);
    case K_ERR_AFTER: return D_THEN_FAIL;
    case K_FREEZE:
        frozen = 1;
        if (cls == C_OBSERVE) return D_PROCEED;
        return fail_with(EIO);
    case K_TORN: case K_TORN_FREEZE: return D_TORN;
    case K_EINTR: return fail_with(EINTR);
    case K_FULL:
        full = 1;
        if (cls == C_WRITE) return fail_with(ENOSPC);
        return D_PROCEED;
    }
    return D_PROCEED;
}

#define REAL(type, name, ...) static type (*real_##name)(__VA_ARGS__); if (!real_##name) real_##name = dlsym(RTLD_NEXT, #name)

int open64(const char *path, int flags, ...) {
    REAL(int, open64, const char *, int, ...);
    mode_t mode = 0;
    if (flags & (O_CREAT | O_TMPFILE)) { va_list ap; va_start(ap, flags); mode = va_arg(ap, mode_t); va_end(ap); }
    if (!under_prefix(path)) {
        int fd = real_open64(path, flags, mode);
        track(fd, 0);
        return fd;
    }
    int writing = (flags & O_ACCMODE) != O_RDONLY || (flags & (O_CREAT | O_TRUNC));
    int d = decide(writing ? C_OPENW : C_OBSERVE, writing ? "open-w" : "open-r", rel(path));
    if (d == D_FAIL) return -1;
    int fd = real_open64(path, flags, mode);
    if (fd < 0 && writing) real_failure("real-failure-open-w");
    if (fd >= 0) track(fd, (flags & O_DIRECTORY) ? T_DIR : (writing ? T_FILE : 0));
    if (d == D_THEN_FAIL && fd >= 0) { close(fd); errno = err; n_failed++; return -1; }
    return fd;
}

int openat64(int dirfd, const char *path, int flags, ...) {
    REAL(int, openat64, int, const char *, int, ...);
    mode_t mode = 0;
    if (flags & (O_CREAT | O_TMPFILE)) { va_list ap; va_start(ap, flags); mode = va_arg(ap, mode_t); va_end(ap); }
    int inside = (dirfd == AT_FDCWD || (path && path[0] == '/')) ? under_prefix(path) : fd_tracked(dirfd) == T_DIR;
    if (!inside) {
        int fd = real_openat64(dirfd, path, flags, mode);
        track(fd, 0);
        return fd;
    }
    int writing = (flags & O_ACCMODE) != O_RDONLY || (flags & (O_CREAT | O_TRUNC));
    int d = decide(writing ? C_OPENW : C_OBSERVE, writing ? "openat-w" : "openat-r", rel(path));
    if (d == D_FAIL) return -1;
    int fd = real_openat64(dirfd, path, flags, mode);
    if (fd < 0 && writing) real_failure("real-failure-openat-w");
    if (fd >= 0) track(fd, writing ? T_FILE : T_DIR);
    if (d == D_THEN_FAIL && fd >= 0) { close(fd); errno = err; n_failed++; return -1; }
    return fd;
}

ssize_t write(int fd, const void *buf, size_t len) {
    REAL(ssize_t, write, int, const void *, size_t);
    if (fd_tracked(fd) != T_FILE) return real_write(fd, buf, len);
    if (torn_fd == fd) { /* the second half of a torn write never arrives */
        long idx = counter++;
        log_call(idx, "write", "(after torn)");
        n_mutating++; n_failed++;
        errno = torn_err;
        return -1;
    }
    int d = decide(C_WRITE, "write", "");
    if (d == D_FAIL) return -1;
    if (d == D_TORN) {
        size_t half = len / 2;
        ssize_t w = half ? real_write(fd, buf, half) : 0;
        if (kind == K_TORN_FREEZE) { frozen = 1; torn_err = EIO; } else { torn_err = err; }
        torn_fd = fd;
        if (w <= 0) { errno = torn_err; n_failed++; return -1; }
        return w;
    }
    size_t n = len;
    if (kind == K_SHORT && param > 0 && n > (size_t)param) {
        n = (size_t)param;
        if (!fired) { fired = 1; fired_class = C_WRITE; snprintf(fired_what, sizeof fired_what, "write"); }
    }
    ssize_t w = real_write(fd, buf, n);
    if (w < 0) real_failure("real-failure-write");
    if (d == D_THEN_FAIL) { errno = err; n_failed++; return -1; }
    return w;
}

int close(int fd) {
    REAL(int, close, int);
    if (fd >= 0 && fd < FDMAX) tracked[fd] = 0;
    if (fd == torn_fd) torn_fd = -1;
    return real_close(fd);
}

int closedir(DIR *d) {
    REAL(int, closedir, DIR *);
    if (d) { int fd = dirfd(d); if (fd >= 0 && fd < FDMAX) tracked[fd] = 0; }
    return real_closedir(d);
}

DIR *opendir(const char *path) {
    REAL(DIR *, opendir, const char *);
    if (under_prefix(path)) {
        int d = decide(C_OBSERVE, "opendir", rel(path));
        if (d == D_FAIL) return NULL;
    }
    DIR *r = real_opendir(path);
    if (r) track(dirfd(r), under_prefix(path) ? T_DIR : 0);
    return r;
}

struct dirent64 *readdir64(DIR *d) {
    REAL(struct dirent64 *, readdir64, DIR *);
    if (d && fd_tracked(dirfd(d)) == T_DIR) {
        int r = decide(C_OBSERVE, "readdir", "");
        if (r == D_FAIL) return NULL;
    }
    return real_readdir64(d);
}

int unlink(const char *path) {
    REAL(int, unlink, const char *);
    if (!under_prefix(path)) return real_unlink(path);
    int d = decide(C_MUTATE, "unlink", rel(path));
    if (d == D_FAIL) return -1;
    int r = real_unlink(path);
    if (r < 0) real_failure("real-failure-unlink");
    if (d == D_THEN_FAIL) { errno = err; n_failed++; return -1; }
    return r;
}

int unlinkat(int dirfd, const char *path, int flags) {
    REAL(int, unlinkat, int, const char *, int);
    int inside = (dirfd == AT_FDCWD || (path && path[0] == '/')) ? under_prefix(path) : fd_tracked(dirfd) == T_DIR;
    if (!inside) return real_unlinkat(dirfd, path, flags);
    int d = decide(C_MUTATE, (flags & AT_REMOVEDIR) ? "unlinkat-dir" : "unlinkat", rel(path));
    if (d == D_FAIL) return -1;
    int r = real_unlinkat(dirfd, path, flags);
    if (r < 0) real_failure("real-failure-unlinkat");
    if (d == D_THEN_FAIL) { errno = err; n_failed++; return -1; }
    return r;
}

int rmdir(const char *path) {
    REAL(int, rmdir, const char *);
    if (!under_prefix(path)) return real_rmdir(path);
    int d = decide(C_MUTATE, "rmdir", rel(path));
    if (d == D_FAIL) return -1;
    int r = real_rmdir(path);
    if (r < 0) real_failure("real-failure-rmdir");
    if (d == D_THEN_FAIL) { errno = err; n_failed++; return -1; }
    return r;
}

int mkdir(const char *path, mode_t mode) {
    REAL(int, mkdir, const char *, mode_t);
    if (!under_prefix(path)) return real_mkdir(path, mode);
    int d = decide(C_MUTATE, "mkdir", rel(path));
    if (d == D_FAIL) return -1;
    int r = real_mkdir(path, mode);
    /* EEXIST and ENOENT are how create_dir_all finds its way; neither is a refused write */
    if (r < 0 && errno != EEXIST && errno != ENOENT) real_failure("real-failure-mkdir");
    if (d == D_THEN_FAIL) { errno = err; n_failed++; return -1; }
    return r;
}

int rename(const char *from, const char *to) {
    REAL(int, rename, const char *, const char *);
    if (!under_prefix(from) && !under_prefix(to)) return real_rename(from, to);
    int d = decide(C_MUTATE, "rename", rel(to));
    if (d == D_FAIL) return -1;
    int r = real_rename(from, to);
    if (r < 0) real_failure("real-failure-rename");
    if (d == D_THEN_FAIL) { errno = err; n_failed++; return -1; }
    return r;
}

/* the stat family: Path::exists / is_dir / lstat in remove_dir_all */
int stat64(const char *path, struct stat64 *st) {
    REAL(int, stat64, const char *, struct stat64 *);
    if (under_prefix(path) && decide(C_OBSERVE, "stat", rel(path)) == D_FAIL) return -1;
    return real_stat64(path, st);
}

int lstat64(const char *path, struct stat64 *st) {
    REAL(int, lstat64, const char *, struct stat64 *);
    if (under_prefix(path) && decide(C_OBSERVE, "lstat", rel(path)) == D_FAIL) return -1;
    return real_lstat64(path, st);
}

int fstatat64(int dirfd, const char *path, struct stat64 *st, int flags) {
    REAL(int, fstatat64, int, const char *, struct stat64 *, int);
    int inside = (dirfd == AT_FDCWD || (path && path[0] == '/')) ? under_prefix(path) : fd_tracked(dirfd) == T_DIR;
    if (inside && decide(C_OBSERVE, "fstatat", rel(path)) == D_FAIL) return -1;
    return real_fstatat64(dirfd, path, st, flags);
}

int statx(int dirfd, const char *path, int flags, unsigned int mask, struct statx *st) {
    REAL(int, statx, int, const char *, int, unsigned int, struct statx *);
    int inside = (dirfd == AT_FDCWD || (path && path[0] == '/')) ? under_prefix(path) : (path && path[0] ? fd_tracked(dirfd) == T_DIR : 0);
    if (inside && decide(C_OBSERVE, "statx", rel(path)) == D_FAIL) return -1;
    return real_statx(dirfd, path, flags, mask, st);
}
