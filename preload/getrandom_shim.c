/* LD_PRELOAD seam for process hash seeds.
 *
 * std's RandomState (HashMap / HashSet / DashMap) draws its per-thread keys through
 * libc's getrandom(). With this library preloaded the bytes are a pure function of
 * VERIF_HASH_SEED (and of the number of bytes drawn so far), so the iteration order of
 * every std hash map in a simulated run is decided by the simulator's seed and a
 * failure replays exactly.
 */
#define _GNU_SOURCE
#include <stddef.h>
#include <stdint.h>
#include <stdlib.h>
#include <sys/types.h>

static uint64_t state;
static int initialised;

static uint64_t next64(void) {
    uint64_t z = (state += 0x9E3779B97F4A7C15ULL);
    z = (z ^ (z >> 30)) * 0xBF58476D1CE4E5B9ULL;
    z = (z ^ (z >> 27)) * 0x94D049BB133111EBULL;
    return z ^ (z >> 31);
}

void verif_reseed(uint64_t seed) {
    state = seed ^ 0xD1B54A32D192ED03ULL;
    initialised = 1;
}

static void init(void) {
    if (!initialised) {
        const char *s = getenv("VERIF_HASH_SEED");
        verif_reseed(s ? strtoull(s, NULL, 10) : 0);
    }
}

ssize_t getrandom(void *buf, size_t len, unsigned int flags) {
    (void)flags;
    init();
    unsigned char *p = buf;
    size_t i = 0;
    while (i < len) {
        uint64_t r = next64();
        for (int k = 0; k < 8 && i < len; k++, i++) {
            p[i] = (unsigned char)(r >> (8 * k));
        }
    }
    return (ssize_t)len;
}

int getentropy(void *buf, size_t len) {
    getrandom(buf, len, 0);
    return 0;
}
