//! sim_intern_miri --scenario arena|intern --seed S
//!
//! One seeded workload on real OS threads against the unmodified intern crate. Run under
//! Miri with `-Zmiri-many-seeds=a..b`: each Miri seed is one schedule. Any assertion
//! failure, data race or other undefined behaviour makes the process fail.

use intern::intern::{AsInterned, InternId, InternTable, Ref as IRef};
use intern::verif_exports::{AtomicArena, Ref};
use simcore::Rng;
use std::borrow::Borrow;
use std::collections::{BTreeMap, BTreeSet};
use std::sync::atomic::{AtomicU32, Ordering};
use std::sync::{Arc, Mutex};

struct Payload {
    id: u32,
    drops: Arc<Vec<AtomicU32>>,
}
impl Drop for Payload {
    fn drop(&mut self) {
        self.drops[self.id as usize].fetch_add(1, Ordering::SeqCst);
    }
}
type ARef = Ref<'static, Payload>;

fn arena(seed: u64) {
    let mut rng = Rng::new(seed);
    // small prefills keep the interpreter fast; 127/128 straddle the first bucket boundary
    let prefill = *rng.pick(&[0u32, 1, 126, 127, 128]);
    let n_threads = rng.range(2, 3) as usize;
    let adds: Vec<u32> = (0..n_threads).map(|_| rng.range(1, 3) as u32).collect();
    let total = prefill + adds.iter().sum::<u32>();
    let drops: Arc<Vec<AtomicU32>> = Arc::new((0..total).map(|_| AtomicU32::new(0)).collect());
    let arena: Arc<AtomicArena<'static, Payload>> = Arc::new(AtomicArena::new());
    let mut all: Vec<(ARef, u32)> = Vec::new();
    for id in 0..prefill {
        all.push((arena.add(Payload { id, drops: drops.clone() }), id));
    }
    let published: Arc<Mutex<Vec<(ARef, u32)>>> = Arc::new(Mutex::new(all.clone()));
    let mut base = prefill;
    let mut handles = Vec::new();
    for n in adds {
        let (arena, drops, published) = (arena.clone(), drops.clone(), published.clone());
        let my_base = base;
        base += n;
        handles.push(std::thread::spawn(move || {
            let mut mine = Vec::new();
            let mut last_len = 0usize;
            for j in 0..n {
                let id = my_base + j;
                let r = arena.add(Payload { id, drops: drops.clone() });
                assert_eq!(arena.get(r).id, id, "C06 read-back");
                mine.push((r, id));
                published.lock().unwrap().push((r, id));
                let l = arena.len();
                assert!(l >= last_len && l >= prefill as usize + mine.len(), "C06 len");
                last_len = l;
                let snap = published.lock().unwrap().clone();
                for (r2, id2) in snap {
                    assert_eq!(arena.get(r2).id, id2, "C06 read-back of a published ref");
                }
            }
            mine
        }));
    }
    for h in handles {
        all.extend(h.join().unwrap());
    }
    let indices: BTreeSet<u32> = all.iter().map(|(r, _)| r.index()).collect();
    assert_eq!(indices.len(), all.len(), "C06 uniqueness");
    assert_eq!(indices, (0..total).collect::<BTreeSet<u32>>(), "C06 density");
    assert_eq!(arena.len(), total as usize, "C06 len after join");
    for (r, id) in &all {
        assert_eq!(arena.get(*r).id, *id, "C06 read-back after join");
    }
    drop(published);
    drop(Arc::try_unwrap(arena).ok().expect("arena still shared"));
    for d in drops.iter() {
        assert_eq!(d.load(Ordering::SeqCst), 1, "C06 drop exactly once");
    }
}

#[derive(Clone, Debug, PartialEq, Eq, Hash, PartialOrd, Ord)]
struct Val(Vec<u8>);
#[derive(Copy, Clone, Debug, PartialEq, Eq, Hash, PartialOrd, Ord)]
struct TId(IRef<Val>);

static TABLE: std::sync::OnceLock<&'static InternTable<TId, Val>> = std::sync::OnceLock::new();

impl InternId for TId {
    type Intern = Val;
    type Lookup = Val;
    fn table() -> &'static InternTable<Self, Val> {
        TABLE.get_or_init(|| Box::leak(Box::new(InternTable::new())))
    }
    fn wrap(r: IRef<Val>) -> Self {
        TId(r)
    }
    fn unwrap(self) -> IRef<Val> {
        self.0
    }
}
impl Borrow<Val> for AsInterned<TId> {
    fn borrow(&self) -> &Val {
        self.0.get()
    }
}

fn interning(seed: u64) {
    let mut rng = Rng::new(seed);
    let pool: Arc<Vec<Val>> = Arc::new(
        (0..rng.range(2, 4))
            .map(|i| Val(match i {
                0 => vec![],
                1 => vec![7],
                _ => (0..rng.range(17, 30)).map(|_| rng.below(256) as u8).collect(),
            }))
            .collect(),
    );
    let n_threads = rng.range(2, 3) as usize;
    let plans: Vec<Vec<usize>> = (0..n_threads).map(|_| (0..rng.range(1, 4)).map(|_| rng.below(pool.len() as u64) as usize).collect()).collect();
    let published: Arc<Mutex<Vec<(usize, TId)>>> = Arc::new(Mutex::new(Vec::new()));
    let mut handles = Vec::new();
    for plan in plans {
        let (pool, published) = (pool.clone(), published.clone());
        handles.push(std::thread::spawn(move || {
            let mut mine: BTreeMap<usize, TId> = BTreeMap::new();
            for v in plan {
                let id = TId::intern(pool[v].clone());
                assert_eq!(id.get(), &pool[v], "C05 lookup");
                if let Some(prev) = mine.insert(v, id) {
                    assert_eq!(prev, id, "C05 stability");
                }
                assert_eq!(TId::get_interned(&pool[v]), Some(id), "C05 get_interned");
                published.lock().unwrap().push((v, id));
                let snap = published.lock().unwrap().clone();
                for (v2, id2) in snap {
                    assert_eq!(id2.get(), &pool[v2], "C05 lookup of a published id");
                }
            }
        }));
    }
    for h in handles {
        h.join().unwrap();
    }
    let all = published.lock().unwrap().clone();
    let mut by_value: BTreeMap<usize, BTreeSet<TId>> = BTreeMap::new();
    for (v, id) in &all {
        by_value.entry(*v).or_default().insert(*id);
    }
    let mut seen = BTreeSet::new();
    for (v, ids) in &by_value {
        assert_eq!(ids.len(), 1, "C05 bijection: value #{v}");
        assert!(seen.insert(*ids.iter().next().unwrap()), "C05 bijection: shared id");
    }
    let indices: BTreeSet<u32> = seen.iter().map(|id| id.index()).collect();
    assert_eq!(indices, (0..by_value.len() as u32).collect::<BTreeSet<u32>>(), "C05 density");
    assert_eq!(TId::table().len(), by_value.len(), "C05 len");
}

fn main() {
    let args: Vec<String> = std::env::args().collect();
    let get = |n: &str| args.iter().position(|a| a == n).and_then(|i| args.get(i + 1).cloned());
    let seed: u64 = get("--seed").and_then(|s| s.parse().ok()).unwrap_or(0);
    match get("--scenario").as_deref() {
        Some("arena") => arena(seed),
        Some("intern") => interning(seed),
        _ => {
            eprintln!("usage: sim_intern_miri --scenario arena|intern --seed S");
            std::process::exit(2);
        }
    }
    println!("ok scenario={} seed={seed}", get("--scenario").unwrap_or_default());
}
