/// splitmix64 for seed derivation, xoshiro256** for the stream.
#[derive(Clone, Debug)]
pub struct Rng {
    s: [u64; 4],
    pub draws: u64,
}

pub fn splitmix64(x: &mut u64) -> u64 {
    *x = x.wrapping_add(0x9E3779B97F4A7C15);
    let mut z = *x;
    z = (z ^ (z >> 30)).wrapping_mul(0xBF58476D1CE4E5B9);
    z = (z ^ (z >> 27)).wrapping_mul(0x94D049BB133111EB);
    z ^ (z >> 31)
}

/// Seed of run `index` of a batch started with `base`.
pub fn derive_seed(base: u64, index: u64) -> u64 {
    let mut x = base ^ 0xA076_1D64_78BD_642F;
    let a = splitmix64(&mut x);
    let mut y = a ^ index.wrapping_mul(0xE703_7ED1_A0B4_28DB);
    splitmix64(&mut y)
}

impl Rng {
    pub fn new(seed: u64) -> Self {
        let mut x = seed;
        let s = [
            splitmix64(&mut x),
            splitmix64(&mut x),
            splitmix64(&mut x),
            splitmix64(&mut x),
        ];
        Rng { s, draws: 0 }
    }

    pub fn next_u64(&mut self) -> u64 {
        self.draws += 1;
        let result = self.s[1].wrapping_mul(5).rotate_left(7).wrapping_mul(9);
        let t = self.s[1] << 17;
        self.s[2] ^= self.s[0];
        self.s[3] ^= self.s[1];
        self.s[1] ^= self.s[2];
        self.s[0] ^= self.s[3];
        self.s[2] ^= t;
        self.s[3] = self.s[3].rotate_left(45);
        result
    }

    /// uniform in 0..n (n > 0)
    pub fn below(&mut self, n: u64) -> u64 {
        debug_assert!(n > 0);
        // multiply-shift; bias is irrelevant for simulation purposes
        ((self.next_u64() as u128 * n as u128) >> 64) as u64
    }

    pub fn range(&mut self, lo: u64, hi_inclusive: u64) -> u64 {
        lo + self.below(hi_inclusive - lo + 1)
    }

    pub fn chance(&mut self, num: u64, den: u64) -> bool {
        self.below(den) < num
    }

    pub fn pick<'a, T>(&mut self, xs: &'a [T]) -> &'a T {
        &xs[self.below(xs.len() as u64) as usize]
    }

    /// index drawn according to integer weights (at least one weight > 0)
    pub fn weighted(&mut self, weights: &[u32]) -> usize {
        let total: u64 = weights.iter().map(|w| *w as u64).sum();
        let mut x = self.below(total.max(1));
        for (i, w) in weights.iter().enumerate() {
            if x < *w as u64 {
                return i;
            }
            x -= *w as u64;
        }
        weights.len() - 1
    }

    pub fn shuffle<T>(&mut self, xs: &mut [T]) {
        for i in (1..xs.len()).rev() {
            let j = self.below(i as u64 + 1) as usize;
            xs.swap(i, j);
        }
    }

    pub fn fork(&mut self) -> Rng {
        Rng::new(self.next_u64())
    }
}
