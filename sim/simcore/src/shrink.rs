//! List minimisation (delta debugging). `still_fails` is given a candidate and
//! says whether it fails with the same violation class.

pub struct ShrinkStats {
    pub candidates: usize,
    pub accepted: usize,
}

/// Remove chunks, then single elements, until no single removal keeps the failure
/// or the budget is exhausted.
pub fn ddmin<T: Clone>(
    items: Vec<T>,
    budget: usize,
    mut still_fails: impl FnMut(&[T]) -> bool,
) -> (Vec<T>, ShrinkStats) {
    let mut cur = items;
    let mut stats = ShrinkStats { candidates: 0, accepted: 0 };
    let mut chunk = (cur.len() / 2).max(1);
    loop {
        let mut progressed = false;
        let mut i = 0;
        while i < cur.len() {
            if stats.candidates >= budget {
                return (cur, stats);
            }
            let end = (i + chunk).min(cur.len());
            let mut cand = Vec::with_capacity(cur.len() - (end - i));
            cand.extend_from_slice(&cur[..i]);
            cand.extend_from_slice(&cur[end..]);
            stats.candidates += 1;
            if still_fails(&cand) {
                cur = cand;
                stats.accepted += 1;
                progressed = true;
                // do not advance i: the next chunk slid into place
            } else {
                i = end;
            }
        }
        if chunk == 1 {
            if !progressed {
                return (cur, stats);
            }
        } else {
            chunk = (chunk / 2).max(1);
        }
    }
}

/// Try replacing each element by simpler alternatives proposed by `simpler`.
pub fn simplify_elements<T: Clone>(
    items: Vec<T>,
    budget: usize,
    simpler: impl Fn(&T) -> Vec<T>,
    mut still_fails: impl FnMut(&[T]) -> bool,
) -> (Vec<T>, ShrinkStats) {
    let mut cur = items;
    let mut stats = ShrinkStats { candidates: 0, accepted: 0 };
    let mut changed = true;
    while changed {
        changed = false;
        for i in 0..cur.len() {
            for alt in simpler(&cur[i]) {
                if stats.candidates >= budget {
                    return (cur, stats);
                }
                let mut cand = cur.clone();
                cand[i] = alt;
                stats.candidates += 1;
                if still_fails(&cand) {
                    cur = cand;
                    stats.accepted += 1;
                    changed = true;
                    break;
                }
            }
        }
    }
    (cur, stats)
}
