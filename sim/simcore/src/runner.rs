//! Parent side of the worker-process protocol.
//!
//! An engine binary re-executes itself as `worker` children. A child handles a
//! contiguous block of run indices and writes lines to stdout:
//!
//!   `B <index>`         run <index> is about to start (flushed; used to attribute a crash)
//!   `V <json>`          a violation (the full case, ready to become a replay file)
//!   `H <hex> <hex> ...` canonical hashes of non-trivial cases
//!   `X <index> <hex>`   event-log hash of a run (only with --loghash)
//!   `S <json>`          block summary: {"counters":{..}, "samples":[..]}
//!
//! OS processes give isolation (a segfault in the code under test kills one
//! block, not the batch) and parallelism. Their scheduling decides nothing:
//! every run is a pure function of its seed, results are merged commutatively
//! and violations are sorted by run index before use.

use serde_json::{Map, Value};
use std::collections::{BTreeMap, HashSet};
use std::io::{BufRead, BufReader};
use std::process::{Command, Stdio};
use std::sync::mpsc;
use std::time::Instant;

pub struct BatchConfig {
    pub exe: std::path::PathBuf,
    /// arguments placed before `--start/--count`
    pub worker_args: Vec<String>,
    pub total_runs: u64,
    pub block: u64,
    pub workers: usize,
    /// stop issuing blocks after this many seconds (0 = no cap)
    pub max_wall_s: f64,
    /// stop issuing blocks once this many violations were collected
    pub max_violations: usize,
    pub env: Vec<(String, String)>,
}

#[derive(Debug, Clone)]
pub struct Crash {
    pub index: Option<u64>,
    pub status: String,
    pub stderr_tail: String,
}

#[derive(Default)]
pub struct BatchOutcome {
    pub runs_done: u64,
    pub counters: BTreeMap<String, u64>,
    pub samples: Vec<Value>,
    pub violations: Vec<Value>,
    pub crashes: Vec<Crash>,
    pub distinct_nontrivial: u64,
    pub distinct_capped: bool,
    pub loghashes: BTreeMap<u64, String>,
    pub wall_s: f64,
    pub hit_time_cap: bool,
}

enum Msg {
    Line(usize, String),
    Done(usize, String, String),
}

const DISTINCT_CAP: usize = 4_000_000;

pub fn run_batch(cfg: &BatchConfig) -> BatchOutcome {
    let start = Instant::now();
    let mut out = BatchOutcome::default();
    let mut hashes: HashSet<u64> = HashSet::new();
    let (tx, rx) = mpsc::channel::<Msg>();
    let mut next_start: u64 = 0;
    let mut live = 0usize;
    let mut slot_block: Vec<(u64, u64)> = Vec::new(); // per child id: (start,count)
    let mut slot_current: Vec<Option<u64>> = Vec::new();
    let mut slot_done_runs: Vec<u64> = Vec::new();

    let mut spawn = |start_idx: u64,
                     count: u64,
                     slot_block: &mut Vec<(u64, u64)>,
                     slot_current: &mut Vec<Option<u64>>,
                     slot_done_runs: &mut Vec<u64>| {
        let id = slot_block.len();
        slot_block.push((start_idx, count));
        slot_current.push(None);
        slot_done_runs.push(0);
        let mut cmd = Command::new(&cfg.exe);
        cmd.args(&cfg.worker_args)
            .arg("--start")
            .arg(start_idx.to_string())
            .arg("--count")
            .arg(count.to_string())
            .stdin(Stdio::null())
            .stdout(Stdio::piped())
            .stderr(Stdio::piped());
        for (k, v) in &cfg.env {
            cmd.env(k, v);
        }
        let mut child = match cmd.spawn() {
            Ok(c) => c,
            Err(e) => crate::harness_error(&format!("cannot spawn worker: {e}")),
        };
        let stdout = child.stdout.take().unwrap();
        let stderr = child.stderr.take().unwrap();
        let tx2 = tx.clone();
        std::thread::spawn(move || {
            let err_handle = std::thread::spawn(move || {
                let mut tail: Vec<String> = Vec::new();
                for line in BufReader::new(stderr).lines().map_while(Result::ok) {
                    tail.push(line);
                    if tail.len() > 40 {
                        tail.remove(0);
                    }
                }
                tail.join("\n")
            });
            for line in BufReader::new(stdout).lines().map_while(Result::ok) {
                let _ = tx2.send(Msg::Line(id, line));
            }
            let status = child
                .wait()
                .map(|s| {
                    if s.success() {
                        "ok".to_string()
                    } else {
                        format!("{s}")
                    }
                })
                .unwrap_or_else(|e| format!("wait failed: {e}"));
            let tail = err_handle.join().unwrap_or_default();
            let _ = tx2.send(Msg::Done(id, status, tail));
        });
    };

    loop {
        while live < cfg.workers
            && next_start < cfg.total_runs
            && !(cfg.max_wall_s > 0.0 && start.elapsed().as_secs_f64() > cfg.max_wall_s)
            && out.violations.len() + out.crashes.len() < cfg.max_violations.max(1)
        {
            let count = cfg.block.min(cfg.total_runs - next_start);
            spawn(
                next_start,
                count,
                &mut slot_block,
                &mut slot_current,
                &mut slot_done_runs,
            );
            next_start += count;
            live += 1;
        }
        if live == 0 {
            break;
        }
        match rx.recv() {
            Ok(Msg::Line(id, line)) => {
                let (tag, rest) = line.split_at(line.len().min(2));
                match tag {
                    "B " => {
                        if slot_current[id].is_some() {
                            slot_done_runs[id] += 1;
                        }
                        slot_current[id] = rest.trim().parse::<u64>().ok();
                    }
                    "V " => match serde_json::from_str::<Value>(rest) {
                        Ok(v) => out.violations.push(v),
                        Err(e) => crate::harness_error(&format!("bad V line: {e}: {rest}")),
                    },
                    "H " => {
                        for h in rest.split_whitespace() {
                            if let Ok(x) = u64::from_str_radix(h, 16) {
                                if hashes.len() < DISTINCT_CAP {
                                    hashes.insert(x);
                                } else {
                                    out.distinct_capped = true;
                                }
                            }
                        }
                    }
                    "X " => {
                        let mut it = rest.split_whitespace();
                        if let (Some(i), Some(h)) = (it.next(), it.next()) {
                            if let Ok(i) = i.parse::<u64>() {
                                out.loghashes.insert(i, h.to_string());
                            }
                        }
                    }
                    "S " => match serde_json::from_str::<Value>(rest) {
                        Ok(v) => {
                            if let Some(c) = v.get("counters").and_then(|c| c.as_object()) {
                                merge_counters(&mut out.counters, c);
                            }
                            if let Some(s) = v.get("samples").and_then(|s| s.as_array()) {
                                for x in s {
                                    if out.samples.len() < 5 {
                                        out.samples.push(x.clone());
                                    }
                                }
                            }
                        }
                        Err(e) => crate::harness_error(&format!("bad S line: {e}")),
                    },
                    _ => {}
                }
            }
            Ok(Msg::Done(id, status, tail)) => {
                live -= 1;
                if status != "ok" {
                    // runs completed before the crash (clean blocks report "runs" themselves)
                    out.runs_done += slot_done_runs[id];
                    out.crashes.push(Crash {
                        index: slot_current[id],
                        status,
                        stderr_tail: tail,
                    });
                }
            }
            Err(_) => break,
        }
    }
    out.hit_time_cap = next_start < cfg.total_runs
        && out.violations.len() + out.crashes.len() < cfg.max_violations.max(1);
    out.runs_done += out.counters.get("runs").copied().unwrap_or(0);
    out.distinct_nontrivial = hashes.len() as u64;
    out.violations
        .sort_by_key(|v| v.get("index").and_then(|i| i.as_u64()).unwrap_or(u64::MAX));
    out.wall_s = start.elapsed().as_secs_f64();
    out
}

pub fn merge_counters(into: &mut BTreeMap<String, u64>, from: &Map<String, Value>) {
    for (k, v) in from {
        if let Some(n) = v.as_u64() {
            *into.entry(k.clone()).or_insert(0) += n;
        }
    }
}

/// Worker-side helper: collects what a block reports and prints it in the protocol.
#[derive(Default)]
pub struct BlockReport {
    pub counters: BTreeMap<String, u64>,
    pub samples: Vec<Value>,
    hashes: Vec<u64>,
}

impl BlockReport {
    pub fn begin_run(&self, index: u64) {
        use std::io::Write;
        let so = std::io::stdout();
        let mut l = so.lock();
        let _ = writeln!(l, "B {index}");
        let _ = l.flush();
    }
    pub fn count(&mut self, name: &str, n: u64) {
        if n > 0 {
            *self.counters.entry(name.to_string()).or_insert(0) += n;
        }
    }
    pub fn nontrivial_case(&mut self, hash: u64) {
        self.hashes.push(hash);
        if self.hashes.len() >= 512 {
            self.flush_hashes();
        }
    }
    pub fn loghash(&self, index: u64, hash: u64) {
        println!("X {index} {hash:016x}");
    }
    fn flush_hashes(&mut self) {
        if self.hashes.is_empty() {
            return;
        }
        let mut s = String::with_capacity(self.hashes.len() * 17 + 2);
        s.push_str("H");
        for h in &self.hashes {
            s.push(' ');
            s.push_str(&format!("{h:x}"));
        }
        println!("{s}");
        self.hashes.clear();
    }
    pub fn violation(&self, v: &Value) {
        println!("V {}", serde_json::to_string(v).unwrap());
    }
    pub fn sample(&mut self, v: Value) {
        if self.samples.len() < 3 {
            self.samples.push(v);
        }
    }
    pub fn finish(mut self) {
        self.flush_hashes();
        let v = serde_json::json!({"counters": self.counters, "samples": self.samples});
        println!("S {}", serde_json::to_string(&v).unwrap());
    }
}

/// Run `exe args...` with `stdin_text` on stdin; return (exit status string, stdout).
pub fn run_child_with_stdin(
    exe: &std::path::Path,
    args: &[String],
    stdin_text: &str,
    env: &[(String, String)],
) -> (String, String) {
    use std::io::Write;
    let mut cmd = Command::new(exe);
    cmd.args(args)
        .stdin(Stdio::piped())
        .stdout(Stdio::piped())
        .stderr(Stdio::null());
    for (k, v) in env {
        cmd.env(k, v);
    }
    let mut child = match cmd.spawn() {
        Ok(c) => c,
        Err(e) => crate::harness_error(&format!("cannot spawn child: {e}")),
    };
    {
        let mut si = child.stdin.take().unwrap();
        let _ = si.write_all(stdin_text.as_bytes());
    }
    let outp = child.wait_with_output().expect("wait");
    let status = if outp.status.success() {
        "ok".to_string()
    } else {
        format!("{}", outp.status)
    };
    (status, String::from_utf8_lossy(&outp.stdout).to_string())
}
