//! Writer for /verif/evidence/<ID>.json (schema: /root/.vp/EVIDENCE.schema.json).
use serde_json::{json, Map, Value};

pub struct Evidence {
    pub property_id: String,
    pub tier: String,
    pub seed: u64,
    pub level: String,
    pub evaluations: u64,
    pub distinct_nontrivial: u64,
    pub rule: String,
    pub samples: Vec<Value>,
    pub extra: Map<String, Value>,
    pub assumptions: Vec<String>,
    pub wall_s: f64,
    pub violations: u64,
}

impl Evidence {
    pub fn to_json(&self) -> Value {
        let mut cov = Map::new();
        cov.insert("evaluations".into(), json!(self.evaluations));
        cov.insert("distinct_nontrivial".into(), json!(self.distinct_nontrivial));
        cov.insert("rule".into(), json!(self.rule));
        cov.insert("samples".into(), Value::Array(self.samples.clone()));
        for (k, v) in &self.extra {
            cov.insert(k.clone(), v.clone());
        }
        json!({
            "property_id": self.property_id,
            "tier": self.tier,
            "seed": self.seed,
            "level": self.level,
            "coverage": Value::Object(cov),
            "assumptions": self.assumptions,
            "wall_s": self.wall_s,
            "violations": self.violations,
        })
    }

    pub fn write(&self, verif_root: &std::path::Path) {
        let dir = verif_root.join("evidence");
        let _ = std::fs::create_dir_all(&dir);
        let path = dir.join(format!("{}.json", self.property_id));
        let tmp = dir.join(format!(".{}.json.tmp", self.property_id));
        let text = serde_json::to_string_pretty(&self.to_json()).unwrap();
        if let Err(e) = std::fs::write(&tmp, text).and_then(|_| std::fs::rename(&tmp, &path)) {
            crate::harness_error(&format!("cannot write evidence {}: {e}", path.display()));
        }
    }
}

pub fn verif_root() -> std::path::PathBuf {
    std::env::var("VERIF_ROOT")
        .map(std::path::PathBuf::from)
        .unwrap_or_else(|_| std::path::PathBuf::from("/verif"))
}
