//! Shared pieces of the deterministic simulators: PRNG, worker-process runner,
//! evidence writer, list minimiser, known-findings file.
//!
//! Nothing in here reads a clock or an OS random source for a *decision*; wall
//! clock is read only to report `wall_s` and to stop a batch at its time cap
//! (the set of seeds explored before the cap is reported, never a verdict).

pub mod evidence;
pub mod known;
pub mod rng;
pub mod runner;
pub mod shrink;

pub use rng::Rng;

/// FNV-1a, used for canonical case hashes (never std's RandomState).
pub fn fnv1a(bytes: &[u8]) -> u64 {
    let mut h: u64 = 0xcbf29ce484222325;
    for b in bytes {
        h ^= *b as u64;
        h = h.wrapping_mul(0x100000001b3);
    }
    h
}

pub fn env_u64(name: &str, default: u64) -> u64 {
    std::env::var(name)
        .ok()
        .and_then(|s| s.trim().parse::<u64>().ok())
        .unwrap_or(default)
}

/// Exit codes shared by every engine.
pub const EXIT_OK: i32 = 0;
pub const EXIT_VIOLATION: i32 = 1;
pub const EXIT_HARNESS: i32 = 2;

pub fn harness_error(msg: &str) -> ! {
    eprintln!("HARNESS-ERROR: {msg}");
    std::process::exit(EXIT_HARNESS);
}
