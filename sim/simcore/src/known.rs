//! /verif/known_findings.json: committed, never written at run time.
use serde::Deserialize;

#[derive(Debug, Clone, Deserialize)]
pub struct Finding {
    pub property: String,
    pub id: String,
    /// "known" (still failing, suppressed as KNOWN-FINDING) or "fixed"
    pub status: String,
    #[serde(default)]
    pub fix_commit: Option<String>,
    /// generator constraint that removes exactly this pattern from open exploration
    #[serde(default)]
    pub excluded_by: Option<String>,
    /// replay file (relative to /verif) of the directed history
    #[serde(default)]
    pub directed_replay: Option<String>,
    pub what: String,
}

#[derive(Debug, Clone, Deserialize, Default)]
pub struct KnownFindings {
    #[serde(default)]
    pub findings: Vec<Finding>,
}

pub fn load(verif_root: &std::path::Path) -> KnownFindings {
    let p = verif_root.join("known_findings.json");
    match std::fs::read_to_string(&p) {
        Ok(s) => match serde_json::from_str(&s) {
            Ok(k) => k,
            Err(e) => crate::harness_error(&format!("{}: {e}", p.display())),
        },
        Err(_) => KnownFindings::default(),
    }
}

impl KnownFindings {
    pub fn for_property<'a>(&'a self, id: &'a str) -> impl Iterator<Item = &'a Finding> + 'a {
        self.findings.iter().filter(move |f| f.property == id)
    }
}
