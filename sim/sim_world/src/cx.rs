//! Glue to the real compiler: configuration, canonical views of a compile
//! result, the fault hook installed at seam H3, simulated process kills.

use crate::world::World;
use artifact_content::get_artifact_path_and_content;
use common_lang_types::{ArtifactPathAndContent, CurrentWorkingDirectory, FileSystemOperation};
use graphql_network_protocol::GraphQLAndJavascriptProfile;
use intern::string_key::Intern;
use isograph_compiler::verif_hooks::{self, FsFault};
use isograph_compiler::CompilerState;
use isograph_config::{create_config, CompilerConfig};
use isograph_schema::IsographDatabase;
use serde::{Deserialize, Serialize};
use std::cell::RefCell;
use std::collections::BTreeMap;
use std::rc::Rc;

pub type Profile = GraphQLAndJavascriptProfile;
pub type State = CompilerState<Profile>;
pub type Db = IsographDatabase<Profile>;

/// Payload of the unwind that simulates a process kill inside a file-system operation.
pub struct SimCrash;

pub fn config_for(world: &World) -> (CompilerConfig, CurrentWorkingDirectory) {
    std::env::set_current_dir(&world.root).expect("harness: chdir into world");
    let cwd: CurrentWorkingDirectory = world.root.to_str().expect("utf8 path").intern().into();
    let config = create_config(&world.root.join("isograph.config.json"), cwd);
    (config, cwd)
}

/// Canonical, comparable view of what a compile of the current sources produces.
#[derive(Clone, Debug, PartialEq, Eq)]
pub enum View {
    Artifacts(BTreeMap<String, Vec<u8>>),
    Diagnostics(Vec<String>),
}

impl View {
    pub fn summary(&self) -> String {
        match self {
            View::Artifacts(m) => format!("{} artifacts", m.len()),
            View::Diagnostics(d) => format!("{} diagnostics: {}", d.len(), d.first().map(|s| s.lines().next().unwrap_or("")).unwrap_or("")),
        }
    }
    pub fn hash(&self) -> u64 {
        let mut bytes = Vec::new();
        match self {
            View::Artifacts(m) => {
                for (k, v) in m {
                    bytes.extend_from_slice(k.as_bytes());
                    bytes.push(0);
                    bytes.extend_from_slice(v);
                    bytes.push(1);
                }
            }
            View::Diagnostics(d) => {
                for s in d {
                    bytes.extend_from_slice(s.as_bytes());
                    bytes.push(2);
                }
            }
        }
        simcore::fnv1a(&bytes)
    }
}

pub fn artifact_rel_path(a: &ArtifactPathAndContent) -> String {
    match &a.artifact_path.type_and_field {
        Some(tf) => format!("{}/{}/{}", tf.parent_entity_name, tf.selectable_name, a.artifact_path.file_name),
        None => format!("{}", a.artifact_path.file_name),
    }
}

pub fn artifact_map(artifacts: &[ArtifactPathAndContent]) -> BTreeMap<String, Vec<u8>> {
    artifacts
        .iter()
        .map(|a| (artifact_rel_path(a), a.file_content.0.as_bytes().to_vec()))
        .collect()
}

/// The artifacts out of whatever `get_artifact_path_and_content` returns on success: the
/// harness keeps building when a refactoring changes what travels alongside them.
pub trait IntoArtifacts {
    fn into_artifacts(self) -> Vec<ArtifactPathAndContent>;
}
impl IntoArtifacts for Vec<ArtifactPathAndContent> {
    fn into_artifacts(self) -> Vec<ArtifactPathAndContent> {
        self
    }
}
impl<T> IntoArtifacts for (Vec<ArtifactPathAndContent>, T) {
    fn into_artifacts(self) -> Vec<ArtifactPathAndContent> {
        self.0
    }
}

pub fn view_of_db(db: &Db) -> View {
    match get_artifact_path_and_content(db) {
        Ok(found) => View::Artifacts(artifact_map(&found.into_artifacts())),
        Err(diagnostics) => View::Diagnostics(
            diagnostics
                .iter()
                .map(|d| d.printable(db.print_location_fn(false)).to_string())
                .collect(),
        ),
    }
}

/// What a freshly started batch compile of the tree would produce (never touches the
/// artifact directory: it stops before the write phase).
pub fn fresh_view(world: &World) -> View {
    fresh_view_checked(world).0
}

/// As `fresh_view`; the flag says that the batch compile could not even read its sources
/// (unreadable / non-UTF-8 source file, missing schema): it reports one location-free error.
pub fn fresh_view_checked(world: &World) -> (View, bool) {
    let (config, cwd) = config_for(world);
    match State::new(config, cwd) {
        Ok(state) => (view_of_db(&state.db), false),
        Err(e) => (View::Diagnostics(vec![e.to_string()]), true),
    }
}

// ---------------------------------------------------------------------------
// faults at seam H3
// ---------------------------------------------------------------------------

#[derive(Serialize, Deserialize, Clone, Copy, Debug, PartialEq, Eq, Hash)]
pub enum FaultKind {
    /// the operation is not performed; EIO / ENOSPC / EACCES is reported
    FailBefore(i32),
    /// the operation is performed, then an error is reported (lost acknowledgement)
    ApplyThenFail,
    /// WriteFile: a prefix (permille of the content) is written, then EIO
    TornWrite(u16),
    /// DeleteDirectory: every second entry is removed, then EIO
    PartialRemove,
    /// process kill before the operation
    KillBefore,
    /// process kill after the operation was performed
    KillAfter,
    /// WriteFile: kill after writing a prefix; DeleteDirectory: kill after removing part
    KillTorn(u16),
}

pub const ALL_FAULT_KINDS: [FaultKind; 9] = [
    FaultKind::FailBefore(libc::EIO),
    FaultKind::FailBefore(libc::ENOSPC),
    FaultKind::FailBefore(libc::EACCES),
    FaultKind::ApplyThenFail,
    FaultKind::TornWrite(500),
    FaultKind::PartialRemove,
    FaultKind::KillBefore,
    FaultKind::KillAfter,
    FaultKind::KillTorn(300),
];

impl FaultKind {
    pub fn name(&self) -> &'static str {
        match self {
            FaultKind::FailBefore(e) if *e == libc::ENOSPC => "fail_before_enospc",
            FaultKind::FailBefore(e) if *e == libc::EACCES => "fail_before_eacces",
            FaultKind::FailBefore(_) => "fail_before_eio",
            FaultKind::ApplyThenFail => "apply_then_fail",
            FaultKind::TornWrite(_) => "torn_write",
            FaultKind::PartialRemove => "partial_remove_dir",
            FaultKind::KillBefore => "kill_before_op",
            FaultKind::KillAfter => "kill_after_op",
            FaultKind::KillTorn(_) => "kill_torn",
        }
    }
    pub fn is_kill(&self) -> bool {
        matches!(self, FaultKind::KillBefore | FaultKind::KillAfter | FaultKind::KillTorn(_))
    }
}

/// What seam H3 saw during one `apply_file_system_operations`.
#[derive(Default, Debug, Clone)]
pub struct ApplyRecord {
    pub ops: Vec<String>,
    pub written: Vec<String>,
    pub fault_fired: Option<&'static str>,
    pub artifacts: Option<BTreeMap<String, Vec<u8>>>,
}

fn perform(op: &FileSystemOperation, artifacts: &[ArtifactPathAndContent]) -> std::io::Result<()> {
    match op {
        FileSystemOperation::DeleteDirectory(p) => {
            if p.exists() {
                std::fs::remove_dir_all(p)
            } else {
                Ok(())
            }
        }
        FileSystemOperation::CreateDirectory(p) => std::fs::create_dir_all(p),
        FileSystemOperation::WriteFile(p, idx) => std::fs::write(p, artifacts[idx.idx].file_content.0.as_bytes()),
        FileSystemOperation::DeleteFile(p) => std::fs::remove_file(p),
    }
}

fn torn(op: &FileSystemOperation, artifacts: &[ArtifactPathAndContent], permille: u16) {
    match op {
        FileSystemOperation::WriteFile(p, idx) => {
            let bytes = artifacts[idx.idx].file_content.0.as_bytes();
            let n = (bytes.len() * permille as usize / 1000).min(bytes.len().saturating_sub(1));
            let _ = std::fs::write(p, &bytes[..n]);
        }
        FileSystemOperation::DeleteDirectory(p) => {
            // remove every second entry (sorted, so the choice does not depend on readdir order)
            let mut entries: Vec<_> = std::fs::read_dir(p).into_iter().flatten().flatten().map(|e| e.path()).collect();
            entries.sort();
            for (i, e) in entries.iter().enumerate() {
                if i % 2 == 0 {
                    if e.is_dir() {
                        let _ = std::fs::remove_dir_all(e);
                    } else {
                        let _ = std::fs::remove_file(e);
                    }
                }
            }
        }
        _ => {}
    }
}

fn op_name(op: &FileSystemOperation, base: &std::path::Path) -> String {
    let rel = |p: &std::path::PathBuf| p.strip_prefix(base).map(|r| r.to_string_lossy().to_string()).unwrap_or_else(|_| p.to_string_lossy().to_string());
    match op {
        FileSystemOperation::DeleteDirectory(p) => format!("DeleteDirectory({})", rel(p)),
        FileSystemOperation::CreateDirectory(p) => format!("CreateDirectory({})", rel(p)),
        FileSystemOperation::WriteFile(p, _) => format!("WriteFile({})", rel(p)),
        FileSystemOperation::DeleteFile(p) => format!("DeleteFile({})", rel(p)),
    }
}

/// Installs the H3 hook: records every operation, and injects `fault` at operation `at`.
pub fn install_fs_hook(artifact_dir: std::path::PathBuf, fault: Option<(usize, FaultKind)>) -> Rc<RefCell<ApplyRecord>> {
    let rec = Rc::new(RefCell::new(ApplyRecord::default()));
    let rec2 = rec.clone();
    verif_hooks::set_fs_fault_hook(Some(Box::new(move |index, op, artifacts| {
        {
            let mut r = rec2.borrow_mut();
            if r.artifacts.is_none() {
                if std::env::var("SIM_DEBUG_SYSLOG").is_ok() {
                    eprintln!("artifact order: {:?}", artifacts.iter().map(artifact_rel_path).collect::<Vec<_>>());
                }
                r.artifacts = Some(artifact_map(artifacts));
            }
            let name = op_name(op, &artifact_dir);
            crate::sysfault::mark(index, &name);
            r.ops.push(name);
            if let FileSystemOperation::WriteFile(p, _) = op {
                r.written.push(p.strip_prefix(&artifact_dir).map(|x| x.to_string_lossy().to_string()).unwrap_or_default());
            }
        }
        let Some((at, kind)) = fault else { return FsFault::Proceed };
        if index != at {
            return FsFault::Proceed;
        }
        rec2.borrow_mut().fault_fired = Some(kind.name());
        let eio = || std::io::Error::from_raw_os_error(libc::EIO);
        match kind {
            FaultKind::FailBefore(errno) => FsFault::Fail(std::io::Error::from_raw_os_error(errno)),
            FaultKind::ApplyThenFail => {
                let _ = perform(op, artifacts);
                FsFault::Fail(eio())
            }
            FaultKind::TornWrite(permille) => {
                torn(op, artifacts, permille);
                FsFault::Fail(eio())
            }
            FaultKind::PartialRemove => {
                torn(op, artifacts, 0);
                FsFault::Fail(eio())
            }
            FaultKind::KillBefore => std::panic::panic_any(SimCrash),
            FaultKind::KillAfter => {
                let _ = perform(op, artifacts);
                std::panic::panic_any(SimCrash)
            }
            FaultKind::KillTorn(permille) => {
                torn(op, artifacts, permille);
                std::panic::panic_any(SimCrash)
            }
        }
    })));
    rec
}

pub fn clear_hooks() {
    verif_hooks::set_fs_fault_hook(None);
    verif_hooks::set_after_watch_iteration(None);
    verif_hooks::set_order_paths_hook(None);
    verif_hooks::set_gc_due(false);
    pico::verif_hooks::set_capacity_override(None);
}

/// Sorted enumeration is the default under the simulator (seam H7); scenarios that vary the
/// order install their own permutation.
pub fn install_sorted_enumeration() {
    verif_hooks::set_order_paths_hook(Some(Box::new(|paths| paths.sort())));
}
