//! The channel through which the compiler *reports* the outcome of a compile to its user: the
//! `tracing` events of `print_result` ("Error when compiling." / "Success! ..."). The watch
//! scenario installs this subscriber for its thread, so that "the compile reported an error"
//! is what the user was told, not what the harness infers from the database.

use std::cell::Cell;
use tracing::field::{Field, Visit};
use tracing::span::{Attributes, Id, Record};
use tracing::{Event, Metadata, Subscriber};

thread_local! {
    static ERRORS_REPORTED: Cell<u32> = const { Cell::new(0) };
    static SUCCESSES_REPORTED: Cell<u32> = const { Cell::new(0) };
}

pub struct OutcomeListener;

struct MessageText(String);

impl Visit for MessageText {
    fn record_debug(&mut self, field: &Field, value: &dyn std::fmt::Debug) {
        if field.name() == "message" {
            self.0 = format!("{value:?}");
        }
    }
}

impl Subscriber for OutcomeListener {
    fn enabled(&self, metadata: &Metadata<'_>) -> bool {
        // only the outcome lines matter; spans are not entered
        metadata.is_event() && *metadata.level() <= tracing::Level::INFO
    }
    fn new_span(&self, _span: &Attributes<'_>) -> Id {
        Id::from_u64(1)
    }
    fn record(&self, _span: &Id, _values: &Record<'_>) {}
    fn record_follows_from(&self, _span: &Id, _follows: &Id) {}
    fn event(&self, event: &Event<'_>) {
        let mut text = MessageText(String::new());
        event.record(&mut text);
        if text.0.contains("Error when compiling") {
            ERRORS_REPORTED.with(|c| c.set(c.get() + 1));
        } else if text.0.contains("Success! Compiled") {
            SUCCESSES_REPORTED.with(|c| c.set(c.get() + 1));
        }
    }
    fn enter(&self, _span: &Id) {}
    fn exit(&self, _span: &Id) {}
}

/// (errors reported, successes reported) since the last call, on this thread.
pub fn take_reported() -> (u32, u32) {
    (ERRORS_REPORTED.with(|c| c.replace(0)), SUCCESSES_REPORTED.with(|c| c.replace(0)))
}
