//! Scenario `session` (C17, C18, C19): compile sessions over the world. A session is
//! one `CompilerState` (one process); `Restart` loses the memory and keeps the disk.
//! Source changes reach a live session as exact `SourceFileEvent`s through the real
//! `update_sources` (an ideal watcher: C20 covers the real event path).

use crate::cx::{self, FaultKind, Profile, SimCrash, State, View};
use crate::sysfault::{self, SysFault, SysKind};
use crate::world::{self, EdOp, World, PATHS};
use isograph_compiler::batch_compile::compile;
use isograph_compiler::watch::{ChangedFileKind, SourceEventKind, SourceFileEvent};
use isograph_compiler::{update_sources, verif_hooks};
use serde::{Deserialize, Serialize};
use simcore::Rng;
use std::panic::{catch_unwind, resume_unwind, AssertUnwindSafe};

#[derive(Serialize, Deserialize, Clone, Debug, PartialEq, Eq, Hash)]
pub enum Garbage {
    /// a stray file directly in the artifact directory
    RootFile(u8),
    /// a stray file in a nested directory that no artifact uses
    NestedFile(u8),
    /// an empty stray directory
    EmptyDir(u8),
    /// a regular file where an entity directory (Query / User) will be needed
    FileAsEntityDir(u8),
    /// a stale copy of a real artifact name with other contents
    StaleArtifact(u8),
    /// a regular file where a selectable directory (Query/Home, User/Avatar) will be needed
    FileAsSelectableDir(u8),
    /// a symbolic link inside the artifact directory to a directory outside it
    SymlinkToOutside(u8),
}

#[derive(Serialize, Deserialize, Clone, Debug, PartialEq, Eq, Hash)]
pub enum Step {
    Edit(EdOp),
    Compile {
        fault: Option<(usize, FaultKind)>,
        /// fault at the system-call seam (preload library); at most one of the two is set
        #[serde(default, skip_serializing_if = "Option::is_none")]
        sys: Option<SysFault>,
    },
    /// the process ends; the next compile starts a new one. `garbage` is written into the
    /// artifact directory before it (someone else edited the directory between sessions).
    Restart { garbage: Vec<Garbage> },
    Gc,
    /// somebody else damages the artifact directory while the session lives (`rm -rf`, a
    /// cleaning script): a source of *real* I/O errors in the next write phase. From here
    /// until the next failed write phase or restart C18 demands nothing ("as long as nothing
    /// else edited the directory"); C19 does once a write has failed.
    Tamper(Tamper),
}

#[derive(Serialize, Deserialize, Clone, Debug, PartialEq, Eq, Hash)]
pub enum Tamper {
    /// remove the whole artifact directory
    RemoveAll,
    /// remove the n-th entity directory (sorted)
    RemoveEntityDir(u8),
    /// remove the n-th selectable directory (sorted)
    RemoveSelectableDir(u8),
    /// remove the n-th file (sorted)
    RemoveFile(u8),
}

#[derive(Serialize, Deserialize, Clone, Debug, PartialEq, Eq, Hash)]
pub struct SessionCase {
    pub capacity: usize,
    pub steps: Vec<Step>,
}

pub struct Violation {
    pub property: &'static str,
    pub kind: &'static str,
    pub detail: String,
    pub step: usize,
}

#[derive(Default)]
pub struct Outcome {
    pub violations: Vec<Violation>,
    pub counters: Vec<(String, u64)>,
    pub log: Vec<u8>,
    pub compiles_ok: u64,
    pub compiles_err: u64,
    pub faults_fired: u64,
    pub recovered_after_fault: u64,
    pub op_counts: Vec<usize>,
    /// per compile: the numbered libc calls below the artifact directory (clean log)
    pub sys_logs: Vec<String>,
}

fn write_garbage(w: &World, g: &Garbage) {
    let dir = w.artifact_dir();
    let _ = std::fs::create_dir_all(&dir);
    match g {
        Garbage::RootFile(n) => {
            let _ = std::fs::write(dir.join(format!("stray{n}.ts")), b"// stray\n");
        }
        Garbage::NestedFile(n) => {
            let d = dir.join("Stray").join(format!("field{n}"));
            let _ = std::fs::create_dir_all(&d);
            let _ = std::fs::write(d.join("resolver_reader.ts"), b"// stray nested\n");
        }
        Garbage::EmptyDir(n) => {
            let _ = std::fs::create_dir_all(dir.join(format!("empty{n}")).join("inner"));
        }
        Garbage::FileAsEntityDir(n) => {
            let name = if n % 2 == 0 { "Query" } else { "User" };
            let p = dir.join(name);
            if !p.exists() {
                let _ = std::fs::write(p, b"i am a file\n");
            }
        }
        Garbage::FileAsSelectableDir(n) => {
            let (entity, selectable) = if n % 2 == 0 { ("Query", "Home") } else { ("User", "Avatar") };
            let e = dir.join(entity);
            if !e.exists() || e.is_dir() {
                let _ = std::fs::create_dir_all(&e);
                let p = e.join(selectable);
                if !p.exists() {
                    let _ = std::fs::write(p, b"i am a file too\n");
                }
            }
        }
        Garbage::SymlinkToOutside(n) => {
            let outside = w.root.join(format!("outside{n}"));
            let _ = std::fs::create_dir_all(&outside);
            let _ = std::fs::write(outside.join("keep.ts"), b"// not an artifact, not inside the artifact directory\n");
            let _ = std::os::unix::fs::symlink(&outside, dir.join(format!("link{n}")));
        }
        Garbage::StaleArtifact(n) => {
            let name = if n % 2 == 0 { "iso.ts" } else { "tsconfig.json" };
            let _ = std::fs::write(dir.join(name), b"// stale\n");
        }
    }
}

/// Applies the damage; false if there was nothing to damage.
fn tamper(w: &World, t: &Tamper) -> bool {
    let dir = w.artifact_dir();
    let snap = world::snapshot(&dir);
    match t {
        Tamper::RemoveAll => dir.is_dir() && std::fs::remove_dir_all(&dir).is_ok(),
        Tamper::RemoveFile(n) => {
            let files: Vec<&String> = snap.files.keys().collect();
            if files.is_empty() {
                return false;
            }
            std::fs::remove_file(dir.join(files[*n as usize % files.len()])).is_ok()
        }
        Tamper::RemoveEntityDir(n) | Tamper::RemoveSelectableDir(n) => {
            let depth = if matches!(t, Tamper::RemoveEntityDir(_)) { 1 } else { 2 };
            let dirs: std::collections::BTreeSet<String> = snap
                .files
                .keys()
                .filter_map(|f| {
                    let parts: Vec<&str> = f.split('/').collect();
                    if parts.len() > depth { Some(parts[..depth].join("/")) } else { None }
                })
                .collect();
            let dirs: Vec<String> = dirs.into_iter().collect();
            if dirs.is_empty() {
                return false;
            }
            std::fs::remove_dir_all(dir.join(&dirs[*n as usize % dirs.len()])).is_ok()
        }
    }
}

fn event_for(w: &World, op: &EdOp) -> Vec<SourceFileEvent> {
    match op {
        EdOp::Write(p, _) | EdOp::AtomicSave(p, _) => vec![(
            SourceEventKind::CreateOrModify(w.abs(PATHS[*p % PATHS.len()].rel)),
            ChangedFileKind::JavaScriptSourceFile,
        )],
        EdOp::Delete(p) => vec![(
            SourceEventKind::Remove(w.abs(PATHS[*p % PATHS.len()].rel)),
            ChangedFileKind::JavaScriptSourceFile,
        )],
        EdOp::WriteSchema(_) => vec![(
            SourceEventKind::CreateOrModify(w.abs("schema.graphql")),
            ChangedFileKind::Schema,
        )],
        EdOp::WriteExt(_) => vec![(
            SourceEventKind::CreateOrModify(w.abs("schema-ext.graphql")),
            ChangedFileKind::SchemaExtension,
        )],
        // directories are created by the harness before the session looks (no source inside yet)
        EdOp::MkDir(_) => vec![],
        _ => vec![],
    }
}

pub fn allowed_in_session(op: &EdOp) -> bool {
    match op {
        EdOp::Write(p, _) | EdOp::Delete(p) | EdOp::AtomicSave(p, _) => PATHS[*p % PATHS.len()].source,
        EdOp::WriteSchema(_) | EdOp::WriteExt(_) | EdOp::MkDir(_) => true,
        _ => false,
    }
}

pub fn run(case: &SessionCase, tag: u64) -> Outcome {
    let mut out = Outcome::default();
    let w = World::create(tag);
    cx::clear_hooks();
    cx::install_sorted_enumeration();
    pico::verif_hooks::set_capacity_override(std::num::NonZeroUsize::new(case.capacity.max(1)));
    let artifact_dir = w.artifact_dir();
    let mut state: Option<State> = None;
    let mut pending: Vec<SourceFileEvent> = Vec::new();
    // a faulted apply happened and no successful compile has been checked since
    let mut dirty = false;
    let mut ok_compiles_in_session = 0u32;
    let mut fault_since_session_start = false;
    // somebody else damaged the artifact directory under a live session and no write phase
    // has failed since (C18 is silent then; a failed write phase hands over to C19)
    let mut tampered = false;
    let mut c: std::collections::BTreeMap<String, u64> = Default::default();
    let mut bump = |c: &mut std::collections::BTreeMap<String, u64>, k: &str| *c.entry(k.to_string()).or_insert(0) += 1;

    for (idx, step) in case.steps.iter().enumerate() {
        out.log.push(idx as u8);
        match step {
            Step::Edit(op) => {
                if !allowed_in_session(op) {
                    bump(&mut c, "steps_skipped");
                    continue;
                }
                if w.apply(op) {
                    pending.extend(event_for(&w, op));
                    bump(&mut c, "edits_applied");
                } else {
                    bump(&mut c, "steps_skipped");
                }
            }
            Step::Restart { garbage } => {
                state = None;
                pending.clear();
                ok_compiles_in_session = 0;
                fault_since_session_start = false;
                tampered = false;
                for g in garbage {
                    write_garbage(&w, g);
                    bump(&mut c, "fault.prior_garbage_in_artifact_dir");
                }
                bump(&mut c, "fault.process_restart");
            }
            Step::Tamper(t) => {
                if tamper(&w, t) {
                    bump(&mut c, "fault.external_damage_to_artifact_dir");
                    // between sessions this is just prior content; under a live session whose
                    // last write phase succeeded it suspends C18
                    if state.is_some() && !dirty {
                        tampered = true;
                    }
                } else {
                    bump(&mut c, "steps_skipped");
                }
            }
            Step::Gc => {
                if let Some(s) = state.as_mut() {
                    verif_hooks::set_gc_due(true);
                    s.run_garbage_collection();
                    bump(&mut c, "fault.gc");
                }
            }
            Step::Compile { fault, sys } => {
                // ---- bring the session up to date ----
                let mut early_error: Option<String> = None;
                if state.is_none() {
                    let (config, cwd) = cx::config_for(&w);
                    match State::new(config, cwd) {
                        Ok(s) => state = Some(s),
                        Err(e) => early_error = Some(e.to_string()),
                    }
                    pending.clear();
                } else if !pending.is_empty() {
                    let events = std::mem::take(&mut pending);
                    if let Err(errs) = update_sources(&mut state.as_mut().unwrap().db, &events) {
                        early_error = Some(errs.iter().map(|e| e.to_string()).collect::<Vec<_>>().join("; "));
                    }
                }
                let before = world::snapshot(&artifact_dir);
                if let Some(e) = early_error {
                    // the compile never started; nothing may have changed
                    out.compiles_err += 1;
                    out.log.extend_from_slice(b"E0");
                    let after = world::snapshot(&artifact_dir);
                    if after != before {
                        out.violations.push(Violation { property: "C17", kind: "failed-compile-changed-artifacts", detail: format!("source initialisation failed ({e}) and the artifact directory changed"), step: idx });
                    }
                    continue;
                }
                let rec = cx::install_fs_hook(artifact_dir.clone(), *fault);
                let st = state.as_mut().unwrap();
                let sys_on = sysfault::available();
                if sys_on {
                    sysfault::arm(&artifact_dir, *sys);
                }
                let result = catch_unwind(AssertUnwindSafe(|| compile::<Profile>(st)));
                let srec = if sys_on { sysfault::disarm() } else { Default::default() };
                verif_hooks::set_fs_fault_hook(None);
                let mut rec = rec.borrow().clone();
                out.op_counts.push(rec.ops.len());
                for o in &rec.ops {
                    if let Some((kind, _)) = o.split_once('(') {
                        bump(&mut c, &format!("probe.writer_op_{kind}"));
                    }
                }
                out.log.extend_from_slice(&srec.loghash.to_le_bytes());
                let sys_kind: Option<SysKind> = sys.filter(|_| srec.fired).map(|f| f.kind);
                if std::env::var("SIM_DEBUG_SYSLOG").is_ok() {
                    eprintln!("---- compile at step {idx}: {} libc calls\n{}", srec.calls, srec.log);
                }
                out.sys_logs.push(srec.log.clone());
                if srec.calls > 0 {
                    bump(&mut c, "compiles_with_numbered_syscalls");
                    *c.entry("syscalls_numbered".to_string()).or_insert(0) += srec.calls;
                }
                if let Some(k) = sys_kind {
                    bump(&mut c, &format!("fault.{}", k.name()));
                    bump(&mut c, &format!("probe.sys_fault_hit_{}", srec.fired_what));
                    // the fault counts as a failed write only if the seam actually failed a call
                    // (a full disk that sets in at a call which is not a write, with no write
                    // after it, fails nothing) or killed the process
                    if !k.is_benign() && (srec.failed_by_shim > 0 || k.is_kill()) {
                        out.faults_fired += 1;
                        rec.fault_fired = Some(k.name());
                    } else if !k.is_benign() {
                        bump(&mut c, "sys_faults_that_failed_no_call");
                    }
                }
                if let Some(name) = rec.fault_fired {
                    if sys_kind.is_none() {
                        out.faults_fired += 1;
                        bump(&mut c, &format!("fault.{name}"));
                    }
                    fault_since_session_start = true;
                }
                // a kill at a system call: whatever the process went on to do never reached the
                // disk; its memory is gone
                let result = if sys_kind.map(|k| k.is_kill()).unwrap_or(false) { Err(Box::new(SimCrash) as Box<dyn std::any::Any + Send>) } else { result };
                match result {
                    Err(payload) => {
                        if payload.downcast_ref::<SimCrash>().is_some() {
                            // simulated kill: memory is gone, the disk stays as it is
                            state = None;
                            pending.clear();
                            ok_compiles_in_session = 0;
                            dirty = true;
                            tampered = false;
                            out.log.extend_from_slice(b"K");
                        } else {
                            world_cleanup(&w);
                            resume_unwind(payload);
                        }
                    }
                    Ok(Ok(_stats)) => {
                        out.compiles_ok += 1;
                        out.log.extend_from_slice(b"OK");
                        let view = cx::view_of_db(&state.as_ref().unwrap().db);
                        let View::Artifacts(artifacts) = view else {
                            out.violations.push(Violation { property: "C18", kind: "ok-without-artifacts", detail: "compile returned Ok but the database reports diagnostics".into(), step: idx });
                            continue;
                        };
                        out.log.extend_from_slice(&simcore::fnv1a(&artifacts.iter().flat_map(|(k, v)| k.bytes().chain(v.iter().copied())).collect::<Vec<u8>>()).to_le_bytes());
                        let tree = world::snapshot(&artifact_dir);
                        let was_tampered = tampered;
                        let real_io_error = tampered && srec.real_failures > 0;
                        if real_io_error {
                            bump(&mut c, "fault.real_io_error_after_external_damage");
                            out.faults_fired += 1;
                        }
                        if let Some(diff) = world::describe_diff(&tree, &artifacts) {
                            let verdict = if dirty {
                                // the last write phase failed: this compile starts from no belief
                                // and re-creates everything, whatever happened to the directory
                                Some(("C19", "not-repaired-after-interrupted-write"))
                            } else if was_tampered && rec.fault_fired.is_some() {
                                // an injected failure on top of external damage: the difference
                                // cannot be attributed (C18 is silent after external damage)
                                bump(&mut c, "compiles_not_judged_after_external_damage");
                                None
                            } else if rec.fault_fired.is_some() {
                                Some(("C19", "success-reported-although-a-write-failed"))
                            } else if real_io_error {
                                // the operating system refused a write (the directory was damaged
                                // by somebody else), the compile nevertheless reports success
                                Some(("C19", "success-reported-although-a-write-failed"))
                            } else if tampered {
                                // C18 is conditional on nobody else editing the directory
                                bump(&mut c, "compiles_not_judged_after_external_damage");
                                None
                            } else {
                                Some(("C18", "directory-differs-from-artifacts"))
                            };
                            let how = match (&rec.fault_fired, sys_kind) {
                                (Some(n), Some(_)) => format!(" [{n} at libc {}()]", srec.fired_what),
                                (Some(n), None) => format!(" [{n}]"),
                                _ if real_io_error => format!(" [{} libc call(s) refused by the operating system after the directory was damaged externally]", srec.real_failures),
                                _ => String::new(),
                            };
                            if let Some((property, kind)) = verdict {
                                out.violations.push(Violation { property, kind, detail: format!("after a successful compile{how}: {diff}"), step: idx });
                            }
                        } else {
                            if dirty {
                                out.recovered_after_fault += 1;
                            }
                            // the directory is whole again
                            tampered = false;
                        }
                        // later compiles of a session write only what changed
                        if ok_compiles_in_session >= 1 && !fault_since_session_start && !was_tampered {
                            for p in &rec.written {
                                if before.files.get(p) == artifacts.get(p) && before.files.contains_key(p) {
                                    out.violations.push(Violation { property: "C18", kind: "rewrote-unchanged-artifact", detail: format!("{p} was written although its content did not change"), step: idx });
                                    break;
                                }
                            }
                            bump(&mut c, "incremental_compiles_checked_for_minimal_writes");
                        }
                        dirty = false;
                        ok_compiles_in_session += 1;
                    }
                    Ok(Err(diags)) => {
                        out.compiles_err += 1;
                        out.log.extend_from_slice(b"ER");
                        if rec.fault_fired.is_some() {
                            dirty = true;
                            tampered = false;
                        } else {
                            let text: Vec<String> = diags.iter().map(|d| d.printable(state.as_ref().unwrap().db.print_location_fn(false)).to_string()).collect();
                            let after = world::snapshot(&artifact_dir);
                            let fs_error = text.iter().any(|t| t.starts_with("Unable to "));
                            if !rec.ops.is_empty() && fs_error && tampered {
                                // a real I/O error: the write phase ran into the external damage.
                                // From here on C19 applies: the next successful compile must
                                // leave the directory equal to its artifacts
                                bump(&mut c, "fault.real_io_error_after_external_damage");
                                out.faults_fired += 1;
                                fault_since_session_start = true;
                                dirty = true;
                                tampered = false;
                            } else if !rec.ops.is_empty() && fs_error {
                                // the write phase was entered without an injected fault and failed
                                let how = sys_kind.map(|k| format!(" under the benign perturbation {}", k.name())).unwrap_or_default();
                                out.violations.push(Violation { property: "C18", kind: "unfaulted-write-phase-failed", detail: format!("compile failed while writing artifacts{how}: {}", text.first().cloned().unwrap_or_default()), step: idx });
                                dirty = true;
                            } else if !rec.ops.is_empty() {
                                // the compile reports (non file-system) diagnostics and nevertheless
                                // issued file-system operations
                                out.violations.push(Violation { property: "C17", kind: "failed-compile-changed-artifacts", detail: format!("compile reported {} diagnostic(s) ({}) but issued {} file-system operation(s), e.g. {}; the artifact directory {}", text.len(), text.first().map(|t| t.lines().next().unwrap_or("").to_string()).unwrap_or_default(), rec.ops.len(), rec.ops.first().cloned().unwrap_or_default(), if after != before { "changed" } else { "ended up with the same content" }), step: idx });
                                dirty = true;
                            } else if after != before {
                                out.violations.push(Violation { property: "C17", kind: "failed-compile-changed-artifacts", detail: format!("compile reported {} diagnostic(s) and the artifact directory changed", text.len()), step: idx });
                            } else {
                                bump(&mut c, "failed_compiles_checked_untouched");
                                if !before.files.is_empty() {
                                    bump(&mut c, "failed_compiles_on_top_of_artifacts");
                                }
                            }
                        }
                    }
                }
            }
        }
    }
    drop(state);
    cx::clear_hooks();
    world_cleanup(&w);
    out.counters = c.into_iter().collect();
    out
}

fn world_cleanup(w: &World) {
    let _ = std::env::set_current_dir("/");
    w.destroy();
}

// ---------------------------------------------------------------------------
// generation
// ---------------------------------------------------------------------------

const SOURCE_PATHS: [usize; 12] = [0, 1, 2, 3, 4, 5, 6, 7, 8, 15, 16, 17];

/// Snippet choice biased to valid contents, so that most runs make progress between errors.
pub fn gen_snippet(rng: &mut Rng) -> usize {
    // index:                      0  1  2  3  4  5  6  7  8  9 10 11 12 13 14 15 16 17 18 19 20 21
    const W: [u32; 22] = [8, 3, 8, 8, 6, 8, 6, 6, 2, 2, 2, 4, 6, 5, 2, 2, 6, 5, 6, 5, 4, 2];
    rng.weighted(&W)
}

/// Each source path has a "home" family of snippets. Writing mostly within the family keeps
/// the project consistent (no duplicate definitions, dependencies in their usual place), so
/// that most compiles reach the write phase; the rest of the writes take any snippet.
fn family_snippet(path: usize, rng: &mut Rng) -> usize {
    let family: &[usize] = match path {
        0 => &[2, 18, 2],
        1 => &[0, 1],
        2 => &[3],
        3 => &[4, 19, 4],
        4 => &[5],
        5 => &[6],
        6 => &[7],
        7 => &[12],
        8 => &[13],
        15 => &[16],
        16 => &[17],
        _ => &[11],
    };
    *rng.pick(family)
}

fn gen_write(rng: &mut Rng) -> EdOp {
    let path = *rng.pick(&SOURCE_PATHS);
    let snippet = if rng.chance(3, 4) { family_snippet(path, rng) } else { gen_snippet(rng) };
    EdOp::Write(path, snippet)
}

fn gen_edit(rng: &mut Rng) -> EdOp {
    match rng.weighted(&[10, 3, 2, 1]) {
        0 => gen_write(rng),
        1 => EdOp::Delete(*rng.pick(&SOURCE_PATHS)),
        2 => EdOp::WriteSchema(*rng.pick(&[0usize, 0, 0, 0, 1, 1, 2, 3])),
        _ => EdOp::WriteExt(*rng.pick(&[0usize, 0, 0, 1, 1, 2])),
    }
}

/// If some file currently holds a field together with its entrypoint (or the field alone),
/// rewrite it to the other form: the selectable stays and loses / gains single files.
fn gen_toggle_entrypoint(cur: &std::collections::BTreeMap<usize, usize>, rng: &mut Rng) -> Option<EdOp> {
    let candidates: Vec<(usize, usize)> = cur
        .iter()
        .filter_map(|(p, s)| match s {
            2 => Some((*p, 18)),
            18 => Some((*p, 2)),
            4 => Some((*p, 19)),
            19 => Some((*p, 4)),
            _ => None,
        })
        .collect();
    if candidates.is_empty() {
        return None;
    }
    let (p, s) = *rng.pick(&candidates);
    Some(EdOp::Write(p, s))
}

fn track_edit(cur: &mut std::collections::BTreeMap<usize, usize>, op: &EdOp) {
    match op {
        EdOp::Write(p, s) | EdOp::AtomicSave(p, s) => {
            cur.insert(*p, *s);
        }
        EdOp::Delete(p) => {
            cur.remove(p);
        }
        _ => {}
    }
}

fn gen_garbage(rng: &mut Rng) -> Vec<Garbage> {
    (0..rng.below(4))
        .map(|_| {
            let n = rng.below(4) as u8;
            match rng.below(7) {
                0 => Garbage::RootFile(n),
                1 => Garbage::NestedFile(n),
                2 => Garbage::EmptyDir(n),
                3 => Garbage::FileAsEntityDir(n),
                4 => Garbage::FileAsSelectableDir(n),
                5 => Garbage::SymlinkToOutside(n),
                _ => Garbage::StaleArtifact(n),
            }
        })
        .collect()
}

/// `with_faults`: the fault-injecting configuration (C19); otherwise fault-free (C17, C18).
pub fn generate(seed: u64, with_faults: bool) -> SessionCase {
    let mut rng = Rng::new(seed);
    let capacity = *rng.pick(&[1usize, 2, 4, 16, 10_000]);
    let mut steps = Vec::new();
    let mut cur: std::collections::BTreeMap<usize, usize> = Default::default();
    // the editor creates the directories first
    for d in [0usize, 1, 2, 3, 6] {
        if rng.chance(4, 5) {
            steps.push(Step::Edit(EdOp::MkDir(d)));
        }
    }
    // initial project: empty (no client fields) in 1 of 6 runs, otherwise a few files,
    // mostly valid
    if !rng.chance(1, 6) {
        for _ in 0..rng.range(2, 6) {
            // the two snippets most others select from first, then family members
            let op = match steps.iter().filter(|s| matches!(s, Step::Edit(EdOp::Write(..)))).count() {
                0 if rng.chance(2, 3) => EdOp::Write(1, 0),
                1 if rng.chance(2, 3) => EdOp::Write(2, 3),
                _ => gen_write(&mut rng),
            };
            track_edit(&mut cur, &op);
            steps.push(Step::Edit(op));
        }
    }
    if rng.chance(1, 3) {
        steps.push(Step::Restart { garbage: gen_garbage(&mut rng) });
    }
    let n = rng.range(4, 24);
    let fault_rate = if with_faults { *rng.pick(&[2u64, 4, 7]) } else { 0 };
    for _ in 0..n {
        match rng.weighted(&[10, 8, 2, 1, if with_faults { 2 } else { 0 }]) {
            4 => {
                let n = rng.below(6) as u8;
                steps.push(Step::Tamper(match rng.below(5) {
                    0 => Tamper::RemoveAll,
                    1 => Tamper::RemoveEntityDir(n),
                    2 => Tamper::RemoveSelectableDir(n),
                    _ => Tamper::RemoveFile(n),
                }));
            }
            0 => {
                let op = if rng.chance(1, 3) { gen_toggle_entrypoint(&cur, &mut rng).unwrap_or_else(|| gen_edit(&mut rng)) } else { gen_edit(&mut rng) };
                track_edit(&mut cur, &op);
                steps.push(Step::Edit(op));
            }
            1 => {
                let mut fault = None;
                let mut sys = None;
                if fault_rate > 0 && rng.chance(fault_rate, 10) {
                    if rng.chance(1, 2) {
                        fault = Some((rng.below(22) as usize, *rng.pick(&cx::ALL_FAULT_KINDS)));
                    } else {
                        // a diff compile issues a handful of calls, a full re-creation hundreds
                        let kind = *rng.pick(&sysfault::FAILING_KINDS);
                        sys = Some(if rng.chance(2, 3) {
                            // relative to one operation of the writer (a file operation is 1-3 calls,
                            // a recursive directory removal many)
                            // addressed by index, or as "the n-th operation of this kind" (so that the
                            // rare kinds - single-file deletions - are hit as well)
                            let op = if rng.chance(1, 3) { 1000 * *rng.pick(&[1u32, 1, 2, 3, 4]) + *rng.pick(&[0u32, 0, 1, 2]) } else { rng.below(22) as u32 };
                            SysFault { at: *rng.pick(&[0u32, 0, 0, 1, 1, 2, 3, 5, 9, 17]), kind, op: Some(op) }
                        } else {
                            let at = match rng.below(3) { 0 => rng.below(8), 1 => rng.below(40), _ => rng.below(300) } as u32;
                            SysFault { at, kind, op: None }
                        });
                    }
                } else if fault_rate == 0 && rng.chance(1, 4) {
                    // fault-free configuration: legal-but-unusual behaviour of the operating system
                    let kind = if rng.chance(1, 2) { SysKind::Short(*rng.pick(&[1u16, 7, 64, 1000])) } else { SysKind::Eintr };
                    sys = Some(SysFault { at: rng.below(60) as u32, kind, op: None });
                }
                steps.push(Step::Compile { fault, sys });
            }
            2 => steps.push(Step::Restart { garbage: gen_garbage(&mut rng) }),
            _ => steps.push(Step::Gc),
        }
    }
    // always end with edits-then-clean-compile so that the last fault has a recovery compile
    if with_faults {
        steps.push(Step::Edit(EdOp::WriteSchema(0)));
        steps.push(Step::Edit(EdOp::WriteExt(0)));
        steps.push(Step::Compile { fault: None, sys: None });
    }
    SessionCase { capacity, steps }
}
