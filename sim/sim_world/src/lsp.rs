//! Scenario `lsp` (C21): the language server's handlers and state, with the `select!`
//! loop replaced by a driver that fires one ready arm per step - exactly the freedom
//! `select!` has: a client message (real `dispatch_notification` / `dispatch_request`), a
//! file-system batch (real `update_sources` + GC), or the debounce timer (real
//! `validate_entire_schema` + `publish_new_diagnostics_and_clear_old_diagnostics`).
//!
//! Oracle: a freshly started server (new `CompilerState` over the same disk tree, the same
//! open buffers applied through the real didOpen handler) must give the same answers and,
//! at quiescent points, the same effective diagnostics.

use crate::cx::{self, Profile, State};
use crate::session::{self, Violation};
use crate::world::{EdOp, World, DIRS, PATHS};
use isograph_compiler::watch::SourceFileEvent;
use isograph_compiler::{update_sources, verif_hooks};
use isograph_lsp::verif_exports::{dispatch_notification, dispatch_request, publish_new_diagnostics_and_clear_old_diagnostics, LspState};
use isograph_schema::validate_entire_schema;
use serde::{Deserialize, Serialize};
use serde_json::{json, Value};
use simcore::Rng;
use std::collections::{BTreeMap, BTreeSet};
use std::panic::{catch_unwind, AssertUnwindSafe};

#[derive(Serialize, Deserialize, Clone, Debug, PartialEq, Eq, Hash)]
pub enum ReqKind {
    SemanticTokens,
    Formatting,
    Hover,
    Definition,
}

#[derive(Serialize, Deserialize, Clone, Debug, PartialEq, Eq, Hash)]
pub enum LStep {
    DidOpen(usize, usize),
    DidChange(usize, usize),
    DidClose(usize),
    /// the editor changes the disk; the file-system batch is queued, not yet delivered
    Disk(EdOp),
    /// the file-system arm fires: the oldest queued batch is processed
    DeliverFs,
    /// the 60 s GC period elapses before the next file-system batch
    Gc,
    /// the debounce timer arm fires (only ready after a notification or batch re-armed it)
    Timer,
    Request(ReqKind, usize, u32),
    /// every arm is drained; the oracle is evaluated
    Settle,
}

#[derive(Serialize, Deserialize, Clone, Debug, PartialEq, Eq, Hash)]
pub struct LspCase {
    pub capacity: usize,
    pub initial: Vec<(usize, usize)>,
    pub steps: Vec<LStep>,
}

pub struct Outcome {
    pub violations: Vec<Violation>,
    pub counters: Vec<(String, u64)>,
    pub log: Vec<u8>,
    pub nontrivial: bool,
    pub sim_time_ms: u64,
}

pub(crate) fn uri_of(w: &World, p: usize) -> String {
    format!("file://{}", w.abs(PATHS[p % PATHS.len()].rel).display())
}

fn notification(method: &str, params: Value) -> lsp_server::Notification {
    lsp_server::Notification { method: method.to_string(), params }
}

pub(crate) fn did_open(w: &World, p: usize, text: &str) -> lsp_server::Notification {
    notification("textDocument/didOpen", json!({"textDocument": {"uri": uri_of(w, p), "languageId": "typescriptreact", "version": 1, "text": text}}))
}
pub(crate) fn did_change(w: &World, p: usize, text: &str) -> lsp_server::Notification {
    notification("textDocument/didChange", json!({"textDocument": {"uri": uri_of(w, p), "version": 2}, "contentChanges": [{"text": text}]}))
}
pub(crate) fn did_close(w: &World, p: usize) -> lsp_server::Notification {
    notification("textDocument/didClose", json!({"textDocument": {"uri": uri_of(w, p)}}))
}

/// (line, character) of a seeded offset inside `text`, biased to the inside of iso literals.
pub(crate) fn position_in(text: &str, seed: u32) -> (u32, u32) {
    if text.is_empty() {
        return (0, 0);
    }
    let bytes = text.as_bytes();
    let candidates: Vec<usize> = {
        let mut inside = false;
        let mut v = Vec::new();
        for (i, b) in bytes.iter().enumerate() {
            if *b == b'`' {
                inside = !inside;
            } else if inside && (b.is_ascii_alphanumeric() || *b == b'_') {
                v.push(i);
            }
        }
        if v.is_empty() {
            (0..bytes.len()).collect()
        } else {
            v
        }
    };
    let off = candidates[seed as usize % candidates.len()];
    let before = &text[..off];
    let line = before.matches('\n').count() as u32;
    let col = before.rsplit('\n').next().map(|s| s.chars().count()).unwrap_or(0) as u32;
    (line, col)
}

pub(crate) fn request(kind: &ReqKind, uri: &str, pos: (u32, u32)) -> lsp_server::Request {
    let td = json!({"uri": uri});
    let position = json!({"line": pos.0, "character": pos.1});
    let (method, params) = match kind {
        ReqKind::SemanticTokens => ("textDocument/semanticTokens/full", json!({"textDocument": td})),
        ReqKind::Formatting => ("textDocument/formatting", json!({"textDocument": td, "options": {"tabSize": 2, "insertSpaces": true}})),
        ReqKind::Hover => ("textDocument/hover", json!({"textDocument": td, "position": position})),
        ReqKind::Definition => ("textDocument/definition", json!({"textDocument": td, "position": position})),
    };
    lsp_server::Request { id: 1.into(), method: method.to_string(), params }
}

/// The response as comparable JSON; a panic inside the handler is its own outcome.
pub(crate) fn ask(state: &LspState<Profile>, req: lsp_server::Request) -> Value {
    match catch_unwind(AssertUnwindSafe(|| dispatch_request(req, state))) {
        Ok(resp) => json!({"result": resp.result, "error": resp.error.map(|e| json!({"code": e.code, "message": e.message}))}),
        Err(_) => json!({"panic": true}),
    }
}

/// Effective diagnostics per URI after applying every publishDiagnostics (empty == absent).
pub(crate) fn apply_published(rx: &crossbeam::channel::Receiver<lsp_server::Message>, map: &mut BTreeMap<String, Value>) {
    while let Ok(msg) = rx.try_recv() {
        if let lsp_server::Message::Notification(n) = msg {
            if n.method == "textDocument/publishDiagnostics" {
                let uri = n.params["uri"].as_str().unwrap_or("").to_string();
                let diags = n.params["diagnostics"].clone();
                if diags.as_array().map(|a| a.is_empty()).unwrap_or(true) {
                    map.remove(&uri);
                } else {
                    map.insert(uri, diags);
                }
            }
        }
    }
}

pub(crate) struct FreshAnswers {
    pub diagnostics: BTreeMap<String, Value>,
}

/// Builds a fresh server on the same disk tree and open buffers and lets `f` query it.
pub(crate) fn with_fresh<R>(w: &World, open: &BTreeMap<usize, String>, f: impl FnOnce(&LspState<Profile>, &FreshAnswers) -> R) -> Option<R> {
    let (config, cwd) = cx::config_for(w);
    let state = State::new(config, cwd).ok()?;
    let (tx, rx) = crossbeam::channel::unbounded();
    let mut lsp = LspState::new(state, &tx);
    for (p, text) in open {
        let _ = dispatch_notification(did_open(w, *p, text), &mut lsp);
    }
    let diags = validate_entire_schema(&lsp.compiler_state.db).clone().err().unwrap_or_default();
    #[allow(clippy::mutable_key_type)]
    let _ = publish_new_diagnostics_and_clear_old_diagnostics(&lsp.compiler_state.db, &diags, &tx, BTreeSet::new());
    let mut map = BTreeMap::new();
    apply_published(&rx, &mut map);
    Some(f(&lsp, &FreshAnswers { diagnostics: map }))
}

/// The oracle as the property states it: a fresh server on the *effective contents* - every
/// open buffer's text written over its file - with the same documents open (their text now
/// equals the disk). Only defined when every open buffer has a file on disk. The files are
/// restored afterwards; the running server does not look at the disk meanwhile.
pub(crate) fn with_effective<R>(w: &World, open: &BTreeMap<usize, String>, f: impl FnOnce(&LspState<Profile>, &FreshAnswers) -> R) -> Option<R> {
    if open.is_empty() || !open.keys().all(|p| w.abs(PATHS[*p].rel).is_file()) {
        return None;
    }
    let saved: Vec<(std::path::PathBuf, Vec<u8>)> = open.keys().map(|p| { let path = w.abs(PATHS[*p].rel); let bytes = std::fs::read(&path).unwrap_or_default(); (path, bytes) }).collect();
    for (p, text) in open {
        std::fs::write(w.abs(PATHS[*p].rel), text.as_bytes()).expect("harness: materialise buffer");
    }
    let r = with_fresh(w, open, f);
    for (path, bytes) in saved {
        std::fs::write(&path, bytes).expect("harness: restore file");
    }
    r
}

pub fn run(case: &LspCase, tag: u64) -> Outcome {
    let w = World::create(tag);
    cx::clear_hooks();
    cx::install_sorted_enumeration();
    pico::verif_hooks::set_capacity_override(std::num::NonZeroUsize::new(case.capacity.max(1)));
    for d in [0usize, 1, 2, 3, 6] {
        let _ = std::fs::create_dir_all(w.abs(DIRS[d]));
    }
    for (p, s) in &case.initial {
        w.apply(&EdOp::Write(*p, *s));
    }
    let mut out = Outcome { violations: vec![], counters: vec![], log: vec![], nontrivial: false, sim_time_ms: 0 };
    let mut c: BTreeMap<String, u64> = BTreeMap::new();
    let mut bump = |c: &mut BTreeMap<String, u64>, k: &str| *c.entry(k.to_string()).or_insert(0) += 1;
    let (config, cwd) = cx::config_for(&w);
    let Ok(state) = State::new(config, cwd) else {
        w.destroy();
        return out;
    };
    let (tx, rx) = crossbeam::channel::unbounded();
    let mut lsp = LspState::new(state, &tx);
    #[allow(clippy::mutable_key_type)]
    let mut uris_with_diagnostics = BTreeSet::new();
    let mut published: BTreeMap<String, Value> = BTreeMap::new();
    let mut open: BTreeMap<usize, String> = BTreeMap::new();
    let mut pending_fs: std::collections::VecDeque<Vec<SourceFileEvent>> = Default::default();
    let mut timer_armed = true; // the server starts with a 100 ms timer
    let mut diagnostics_computed_once = false;
    let mut opened_after_first_diagnostics = false;
    let mut buffer_differs_from_disk = false;
    let mut gc_next = false;
    let mut sim_ms = 0u64;

    macro_rules! fire_timer {
        () => {{
            let diags = validate_entire_schema(&lsp.compiler_state.db).clone().err().unwrap_or_default();
            uris_with_diagnostics = publish_new_diagnostics_and_clear_old_diagnostics(&lsp.compiler_state.db, &diags, &tx, std::mem::take(&mut uris_with_diagnostics));
            apply_published(&rx, &mut published);
            timer_armed = false;
            diagnostics_computed_once = true;
            sim_ms += 100;
            bump(&mut c, "arm.timer");
        }};
    }
    macro_rules! deliver_fs {
        () => {{
            if let Some(batch) = pending_fs.pop_front() {
                if gc_next {
                    verif_hooks::set_gc_due(true);
                    gc_next = false;
                    bump(&mut c, "fault.gc");
                }
                let _ = update_sources(&mut lsp.compiler_state.db, &batch);
                lsp.compiler_state.run_garbage_collection();
                timer_armed = true;
                sim_ms += 100;
                bump(&mut c, "arm.fs_batch");
            }
        }};
    }

    for (idx, step) in case.steps.iter().enumerate() {
        out.log.push(idx as u8);
        match step {
            LStep::DidOpen(p, s) | LStep::DidChange(p, s) => {
                let p = *p % PATHS.len();
                let text = String::from_utf8_lossy(&World::content_for(p, *s)).to_string();
                let n = if matches!(step, LStep::DidOpen(..)) || !open.contains_key(&p) { did_open(&w, p, &text) } else { did_change(&w, p, &text) };
                let _ = dispatch_notification(n, &mut lsp);
                if diagnostics_computed_once && !open.contains_key(&p) {
                    opened_after_first_diagnostics = true;
                }
                if std::fs::read(w.abs(PATHS[p].rel)).ok().map(|d| d != text.as_bytes()).unwrap_or(true) {
                    buffer_differs_from_disk = true;
                }
                open.insert(p, text);
                timer_armed = true;
                bump(&mut c, "arm.client_notification");
            }
            LStep::DidClose(p) => {
                let p = *p % PATHS.len();
                if open.remove(&p).is_some() {
                    let _ = dispatch_notification(did_close(&w, p), &mut lsp);
                    timer_armed = true;
                    bump(&mut c, "arm.client_notification");
                }
            }
            LStep::Disk(op) => {
                if session::allowed_in_session(op) && w.apply(op) {
                    let ev = session_event(&w, op);
                    if !ev.is_empty() {
                        pending_fs.push_back(ev);
                    }
                    bump(&mut c, "disk_edits");
                }
            }
            LStep::DeliverFs => deliver_fs!(),
            LStep::Gc => gc_next = true,
            LStep::Timer => {
                if timer_armed {
                    fire_timer!();
                }
            }
            LStep::Request(kind, p, seed) => {
                if !pending_fs.is_empty() {
                    // the server has legitimately not seen the disk change yet
                    bump(&mut c, "requests_skipped_fs_batch_in_flight");
                    continue;
                }
                // an LSP client only queries documents it has open: the index selects among them
                if open.is_empty() {
                    bump(&mut c, "requests_skipped_no_document_open");
                    continue;
                }
                let p = *open.keys().nth(*p % open.len()).unwrap();
                // A request about a buffer whose file is not on disk panics in any server
                // ("Expected relative path to exist"): a robustness matter outside C21, noted in
                // DESIGN.md; a tenth of them is still asked (and ends the history, see below).
                if !w.abs(PATHS[p].rel).is_file() && *seed % 10 != 0 {
                    bump(&mut c, "requests_skipped_buffer_without_file");
                    continue;
                }
                let text = open.get(&p).cloned().unwrap_or_default();
                let pos = position_in(&text, *seed);
                let uri = uri_of(&w, p);
                let got = ask(&lsp, request(kind, &uri, pos));
                let want = with_fresh(&w, &open, |fresh, _| ask(fresh, request(kind, &uri, pos)));
                bump(&mut c, "requests_compared");
                out.log.extend_from_slice(&simcore::fnv1a(got.to_string().as_bytes()).to_le_bytes());
                match want {
                    None => bump(&mut c, "fresh_server_could_not_start"),
                    Some(want) => {
                        if got.get("panic").is_some() && want.get("panic").is_some() {
                            // the handler panics on this input in any server: not a C21 matter.
                            // The real server process would be gone now, so the history ends here.
                            bump(&mut c, "requests_panicking_in_both");
                            break;
                        } else if got != want {
                            let g = got.to_string();
                            let wnt = want.to_string();
                            out.violations.push(Violation {
                                property: "C21",
                                kind: "answer-differs-from-fresh-server",
                                detail: format!("{kind:?} on {} at {pos:?}: server {} ; fresh server {}", PATHS[p].rel, &g[..g.len().min(300)], &wnt[..wnt.len().min(300)]),
                                step: idx,
                            });
                        } else if let Some(eff) = with_effective(&w, &open, |fresh, _| ask(fresh, request(kind, &uri, pos))) {
                            bump(&mut c, "requests_compared_with_effective_contents");
                            if got != eff {
                                let g = got.to_string();
                                let wnt = eff.to_string();
                                out.violations.push(Violation {
                                    property: "C21",
                                    kind: "answer-differs-from-server-on-effective-contents",
                                    detail: format!("{kind:?} on {} at {pos:?}: server (buffers over disk) {} ; fresh server on the effective contents {}", PATHS[p].rel, &g[..g.len().min(300)], &wnt[..wnt.len().min(300)]),
                                    step: idx,
                                });
                            }
                        }
                    }
                }
            }
            LStep::Settle => {
                while !pending_fs.is_empty() {
                    deliver_fs!();
                }
                if timer_armed {
                    fire_timer!();
                }
                let want = with_fresh(&w, &open, |_, fresh| fresh.diagnostics.clone());
                bump(&mut c, "quiescent_points_checked");
                out.log.extend_from_slice(&simcore::fnv1a(format!("{published:?}").as_bytes()).to_le_bytes());
                if let Some(want) = want {
                    if want != published {
                        let only_server: Vec<&String> = published.keys().filter(|k| !want.contains_key(*k)).collect();
                        let only_fresh: Vec<&String> = want.keys().filter(|k| !published.contains_key(*k)).collect();
                        let differ: Vec<&String> = published.iter().filter(|(k, v)| want.get(*k).map(|x| x != *v).unwrap_or(false)).map(|(k, _)| k).collect();
                        out.violations.push(Violation {
                            property: "C21",
                            kind: "diagnostics-differ-from-fresh-server",
                            detail: format!("effective diagnostics differ: only on the running server {only_server:?}; only on a fresh server {only_fresh:?}; different {differ:?}"),
                            step: idx,
                        });
                    }
                } else {
                    bump(&mut c, "fresh_server_could_not_start");
                }
                if out.violations.is_empty() {
                    if let Some(eff) = with_effective(&w, &open, |_, fresh| fresh.diagnostics.clone()) {
                        bump(&mut c, "quiescent_points_checked_with_effective_contents");
                        if eff != published {
                            let only_server: Vec<&String> = published.keys().filter(|k| !eff.contains_key(*k)).collect();
                            let only_fresh: Vec<&String> = eff.keys().filter(|k| !published.contains_key(*k)).collect();
                            let differ: Vec<&String> = published.iter().filter(|(k, v)| eff.get(*k).map(|x| x != *v).unwrap_or(false)).map(|(k, _)| k).collect();
                            out.violations.push(Violation {
                                property: "C21",
                                kind: "diagnostics-differ-from-server-on-effective-contents",
                                detail: format!("effective diagnostics differ from a fresh server on the effective contents: only on the running server {only_server:?}; only there {only_fresh:?}; different {differ:?}"),
                                step: idx,
                            });
                        }
                    }
                }
            }
        }
        if !out.violations.is_empty() {
            break;
        }
    }
    if opened_after_first_diagnostics {
        bump(&mut c, "probe.buffer_opened_after_first_diagnostics");
    }
    if buffer_differs_from_disk {
        bump(&mut c, "probe.buffer_differs_from_disk");
    }
    out.nontrivial = opened_after_first_diagnostics || buffer_differs_from_disk;
    out.sim_time_ms = sim_ms;
    drop(lsp);
    cx::clear_hooks();
    let _ = std::env::set_current_dir("/");
    w.destroy();
    out.counters = c.into_iter().collect();
    out
}

pub(crate) fn session_event(w: &World, op: &EdOp) -> Vec<SourceFileEvent> {
    use isograph_compiler::watch::{ChangedFileKind, SourceEventKind};
    match op {
        EdOp::Write(p, _) => vec![(SourceEventKind::CreateOrModify(w.abs(PATHS[*p % PATHS.len()].rel)), ChangedFileKind::JavaScriptSourceFile)],
        EdOp::Delete(p) => vec![(SourceEventKind::Remove(w.abs(PATHS[*p % PATHS.len()].rel)), ChangedFileKind::JavaScriptSourceFile)],
        EdOp::WriteSchema(_) => vec![(SourceEventKind::CreateOrModify(w.abs("schema.graphql")), ChangedFileKind::Schema)],
        EdOp::WriteExt(_) => vec![(SourceEventKind::CreateOrModify(w.abs("schema-ext.graphql")), ChangedFileKind::SchemaExtension)],
        _ => vec![],
    }
}

const SRC: [usize; 8] = [0, 1, 2, 4, 5, 6, 7, 15];

pub fn generate(seed: u64) -> LspCase {
    let mut rng = Rng::new(seed);
    let capacity = *rng.pick(&[1usize, 2, 4, 16, 10_000]);
    let mut initial = Vec::new();
    for _ in 0..rng.range(1, 4) {
        initial.push((*rng.pick(&SRC), *rng.pick(&[0usize, 2, 3, 4, 5, 6, 7, 12, 13, 11])));
    }
    let mut steps = Vec::new();
    let mut on_disk: BTreeMap<usize, usize> = initial.iter().cloned().collect();
    // a buffer is often what is on disk with lines inserted on top (positions shift), or some
    // other snippet, sometimes shifted as well
    // what each buffer currently holds (base snippet), so that a change can be the same text
    // reflowed: same diagnostics, same byte offsets, other line numbers
    let mut in_buffer: BTreeMap<usize, usize> = BTreeMap::new();
    let mut buffer_snippet = |rng: &mut Rng, on_disk: &BTreeMap<usize, usize>, p: usize| -> usize {
        let s = match (on_disk.get(&p), in_buffer.get(&p).copied(), rng.below(6)) {
            (Some(s), _, 0) => 100 + *s,
            (_, _, 1) => 100 + session::gen_snippet(rng),
            (_, Some(b), 2) | (_, Some(b), 3) => {
                if b >= 200 {
                    b % 100
                } else {
                    200 + b % 100
                }
            }
            (Some(s), None, 2) => 200 + *s,
            _ => session::gen_snippet(rng),
        };
        in_buffer.insert(p, s);
        s
    };
    // half of the runs let diagnostics be computed before anything is opened
    if rng.chance(1, 2) {
        steps.push(LStep::Timer);
    }
    let n = rng.range(4, 20);
    for _ in 0..n {
        let p = *rng.pick(&SRC);
        let step = match rng.weighted(&[5, 6, 2, 4, 3, 1, 3, 8, 3]) {
            0 => LStep::DidOpen(p, buffer_snippet(&mut rng, &on_disk, p)),
            1 => LStep::DidChange(p, buffer_snippet(&mut rng, &on_disk, p)),
            2 => LStep::DidClose(p),
            3 => LStep::Disk(match rng.below(6) {
                0 => {
                    on_disk.remove(&p);
                    EdOp::Delete(p)
                }
                1 => EdOp::WriteSchema(*rng.pick(&[0usize, 0, 1, 2])),
                _ => {
                    let s = session::gen_snippet(&mut rng);
                    on_disk.insert(p, s);
                    EdOp::Write(p, s)
                }
            }),
            4 => LStep::DeliverFs,
            5 => LStep::Gc,
            6 => LStep::Timer,
            7 => LStep::Request(
                match rng.below(4) {
                    0 => ReqKind::SemanticTokens,
                    1 => ReqKind::Formatting,
                    2 => ReqKind::Hover,
                    _ => ReqKind::Definition,
                },
                p,
                rng.below(10_000) as u32,
            ),
            _ => LStep::Settle,
        };
        steps.push(step);
    }
    steps.push(LStep::Settle);
    LspCase { capacity, initial, steps }
}
