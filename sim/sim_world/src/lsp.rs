//! placeholder (scenario not built yet)
use crate::session::Violation;
use serde::{Deserialize, Serialize};

#[derive(Serialize, Deserialize, Clone, Debug)]
pub struct LspCase {
    pub steps: Vec<u8>,
}
pub struct Outcome {
    pub violations: Vec<Violation>,
    pub counters: Vec<(String, u64)>,
    pub log: Vec<u8>,
    pub nontrivial: bool,
    pub sim_time_ms: u64,
}
pub fn generate(_seed: u64) -> LspCase {
    LspCase { steps: vec![] }
}
pub fn run(_case: &LspCase, _tag: u64) -> Outcome {
    Outcome { violations: vec![], counters: vec![], log: vec![], nontrivial: false, sim_time_ms: 0 }
}
