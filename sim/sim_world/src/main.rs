//! sim_world: the real isograph compiler, artifact writer, watch loop and language-server
//! handlers inside one deterministic process per run (properties C14, C17-C21).
//!
//!   sim_world run --property C18 --tier quick|thorough
//!   sim_world worker --scenario S --base B --start a --count n [--loghash]
//!   sim_world exec-json          {"scenario":..,"case":..} on stdin -> result JSON on stdout
//!   sim_world replay <file>
//!   sim_world selftest
//!   sim_world snippets           development aid: compile every pool snippet alone

mod cx;
mod determinism;
mod fsplan;
mod isolate;
mod lsp;
mod lsploop;
mod reported;
mod session;
mod sysfault;
mod watch;
mod world;

use serde_json::{json, Value};
use session::Violation;
use simcore::evidence::{verif_root, Evidence};
use simcore::rng::derive_seed;
use simcore::runner::{self, BatchConfig, BlockReport};
use std::collections::BTreeMap;
use std::panic::{catch_unwind, AssertUnwindSafe};

fn arg_value(args: &[String], name: &str) -> Option<String> {
    args.iter().position(|a| a == name).and_then(|i| args.get(i + 1).cloned())
}
fn arg_u64(args: &[String], name: &str, default: u64) -> u64 {
    arg_value(args, name).and_then(|s| s.parse().ok()).unwrap_or(default)
}

thread_local! {
    static LAST_PANIC: std::cell::RefCell<String> = const { std::cell::RefCell::new(String::new()) };
}

fn install_quiet_panic_hook() {
    if std::env::var("SIM_DEBUG").is_ok() {
        return;
    }
    std::panic::set_hook(Box::new(|info| {
        if info.payload().downcast_ref::<cx::SimCrash>().is_some() {
            return;
        }
        let msg = if let Some(s) = info.payload().downcast_ref::<&str>() {
            s.to_string()
        } else if let Some(s) = info.payload().downcast_ref::<String>() {
            s.clone()
        } else {
            "panic".to_string()
        };
        let loc = info.location().map(|l| format!(" at {}:{}", l.file(), l.line())).unwrap_or_default();
        LAST_PANIC.with(|p| *p.borrow_mut() = format!("{msg}{loc}"));
    }));
}

/// What one executed case reports, whatever the scenario.
#[derive(Default)]
struct RunReport {
    violations: Vec<Violation>,
    counters: Vec<(String, u64)>,
    loghash: u64,
    nontrivial: bool,
    sub_runs: u64,
    sim_time_ms: u64,
}

fn scenario_property_for_panic(scenario: &str) -> &'static str {
    match scenario {
        "watch" => "C20",
        "lsp" | "lsploop" => "C21",
        "determinism" => "C14",
        "session_faults" | "session_enum" => "C19",
        _ => "C18",
    }
}

fn salt(scenario: &str) -> u64 {
    simcore::fnv1a(scenario.as_bytes())
}

fn generate_case(scenario: &str, seed: u64) -> Value {
    match scenario {
        "session_clean" => serde_json::to_value(session::generate(seed, false)).unwrap(),
        "session_faults" => serde_json::to_value(session::generate(seed, true)).unwrap(),
        "session_enum" => serde_json::to_value(session::generate(seed, false)).unwrap(),
        "fsplan" => serde_json::to_value(fsplan::generate(seed)).unwrap(),
        "watch" => serde_json::to_value(watch::generate(seed)).unwrap(),
        "determinism" => serde_json::to_value(determinism::generate(seed)).unwrap(),
        "lsp" | "lsploop" => serde_json::to_value(lsp::generate(seed)).unwrap(),
        _ => simcore::harness_error(&format!("unknown scenario {scenario}")),
    }
}

fn case_tag(case: &Value) -> u64 {
    simcore::fnv1a(case.to_string().as_bytes())
}

fn session_report(o: session::Outcome) -> RunReport {
    let mut counters = o.counters.clone();
    counters.push(("compiles_ok".into(), o.compiles_ok));
    counters.push(("compiles_err".into(), o.compiles_err));
    counters.push(("recovered_after_fault".into(), o.recovered_after_fault));
    RunReport {
        loghash: simcore::fnv1a(&o.log),
        nontrivial: o.compiles_ok >= 1 && (o.compiles_err >= 1 || o.faults_fired >= 1 || o.compiles_ok >= 2),
        violations: o.violations,
        counters,
        sub_runs: 1,
        sim_time_ms: 0,
    }
}

/// Fault enumeration over one base history: every operation index of every compile x every
/// fault kind x {same session, restart}.
fn run_session_enum(base: &session::SessionCase, tag: u64) -> RunReport {
    use session::Step;
    use sysfault::{SysFault, SysKind};
    // the base history is fault free: legal-but-unusual OS behaviour is stripped as well, so
    // that the clean run numbers exactly the calls the faulted runs will see
    let mut base = base.clone();
    for s in base.steps.iter_mut() {
        if let Step::Compile { sys, .. } = s {
            *sys = None;
        }
    }
    let base = &base;
    let clean = session_in_child(base, tag, "C19");
    let mut rep = RunReport { sub_runs: 1, ..Default::default() };
    let mut counters: BTreeMap<String, u64> = BTreeMap::new();
    let mut log: Vec<u8> = clean.log.clone();
    if !clean.violations.is_empty() {
        // the clean history itself fails: reported by the C17/C18 checks, nothing to enumerate
        rep.violations = clean.violations;
        return rep;
    }
    let sys_indices_per_compile = simcore::env_u64("SIM_ENUM_SYS_INDICES", 10) as usize;
    let compile_positions: Vec<usize> = base.steps.iter().enumerate().filter(|(_, s)| matches!(s, Step::Compile { .. })).map(|(i, _)| i).collect();
    // (position of the compile, the faulted compile step, restart afterwards, label)
    let mut plan: Vec<(usize, Step, bool, String)> = Vec::new();
    for (k, pos) in compile_positions.iter().enumerate() {
        let n_ops = clean.op_counts.get(k).copied().unwrap_or(0);
        for op_index in 0..n_ops {
            for kind in cx::ALL_FAULT_KINDS {
                for restart_after in [false, true] {
                    plan.push((*pos, Step::Compile { fault: Some((op_index, kind)), sys: None }, restart_after, format!("compile #{k} op {op_index} {} restart_after={restart_after}", kind.name())));
                }
            }
        }
        // the system-call seam: which libc calls did this compile issue below the artifact directory?
        let calls: Vec<(u32, String)> = clean
            .sys_logs
            .get(k)
            .map(|l| l.lines().filter_map(|line| { let mut it = line.split(' '); let i = it.next()?.parse::<i64>().ok()?; if i < 0 { return None; } Some((i as u32, it.next()?.to_string())) }).collect())
            .unwrap_or_default();
        let chosen: Vec<&(u32, String)> = if calls.len() <= sys_indices_per_compile {
            calls.iter().collect()
        } else {
            // always the first and the last calls, and a seeded sample in between
            let mut rng = simcore::Rng::new(tag ^ (k as u64).wrapping_mul(0x9E37_79B9_7F4A_7C15));
            let edge = (sys_indices_per_compile / 5).max(1);
            let mut pick: std::collections::BTreeSet<usize> = (0..edge).chain(calls.len() - edge..calls.len()).collect();
            while pick.len() < sys_indices_per_compile {
                pick.insert(rng.below(calls.len() as u64) as usize);
            }
            pick.into_iter().map(|i| &calls[i]).collect()
        };
        *counters.entry("enumerated_syscalls_available".into()).or_insert(0) += calls.len() as u64;
        for (at, what) in chosen {
            for kind in sysfault::FAILING_KINDS {
                let write_only = matches!(kind, SysKind::Torn(_) | SysKind::TornFreeze);
                if write_only && what != "write" {
                    continue;
                }
                let restarts: &[bool] = if kind.is_kill() { &[false] } else { &[false, true] };
                for restart_after in restarts {
                    plan.push((*pos, Step::Compile { fault: None, sys: Some(SysFault { at: *at, kind, op: None }) }, *restart_after, format!("compile #{k} libc call {at} ({what}) {} restart_after={restart_after}", kind.name())));
                }
            }
        }
    }
    for (pos, step, restart_after, label) in plan {
        let is_sys = matches!(&step, Step::Compile { sys: Some(_), .. });
        let kind_name = match &step {
            Step::Compile { fault: Some((_, k)), .. } => k.name(),
            Step::Compile { sys: Some(f), .. } => f.kind.name(),
            _ => "none",
        };
        let mut c = base.clone();
        c.steps[pos] = step;
        if restart_after {
            c.steps.insert(pos + 1, Step::Restart { garbage: vec![] });
        }
        c.steps.push(Step::Compile { fault: None, sys: None });
        let o = session_in_child(&c, tag, "C19");
        rep.sub_runs += 1;
        *counters.entry(if is_sys { "enumerated_syscall_fault_points" } else { "enumerated_fault_points" }.into()).or_insert(0) += 1;
        if o.faults_fired > 0 {
            *counters.entry(format!("fault.{kind_name}")).or_insert(0) += 1;
        }
        for (k, n) in &o.counters {
            if k.starts_with("probe.") {
                *counters.entry(k.clone()).or_insert(0) += n;
            }
        }
        *counters.entry("recovered_after_fault".into()).or_insert(0) += o.recovered_after_fault;
        log.extend_from_slice(&simcore::fnv1a(&o.log).to_le_bytes());
        if let Some(v) = o.violations.into_iter().next() {
            // report the explicit faulted history, not the base
            rep.violations.push(Violation { detail: format!("{} [enumerated: {label}] CASE={}", v.detail, serde_json::to_string(&c).unwrap()), ..v });
            rep.counters = counters.into_iter().collect();
            rep.loghash = simcore::fnv1a(&log);
            return rep;
        }
    }
    rep.nontrivial = rep.sub_runs > 1;
    rep.counters = counters.into_iter().collect();
    rep.loghash = simcore::fnv1a(&log);
    rep
}

fn run_case(scenario: &str, case: &Value) -> RunReport {
    let tag = case_tag(case);
    match scenario {
        "session_clean" | "session_faults" => {
            let c: session::SessionCase = serde_json::from_value(case.clone()).unwrap_or_else(|e| simcore::harness_error(&format!("bad session case: {e}")));
            session_report(session::run(&c, tag))
        }
        "session_enum" => {
            let c: session::SessionCase = serde_json::from_value(case.clone()).unwrap_or_else(|e| simcore::harness_error(&format!("bad session case: {e}")));
            run_session_enum(&c, tag)
        }
        "fsplan" => {
            let c: fsplan::PlanCase = serde_json::from_value(case.clone()).unwrap_or_else(|e| simcore::harness_error(&format!("bad fsplan case: {e}")));
            let o = fsplan::run(&c, tag);
            RunReport { loghash: simcore::fnv1a(&o.log), nontrivial: o.nontrivial, violations: o.violations, counters: o.counters, sub_runs: 1, sim_time_ms: 0 }
        }
        "watch" => {
            let c: watch::WatchCase = serde_json::from_value(case.clone()).unwrap_or_else(|e| simcore::harness_error(&format!("bad watch case: {e}")));
            let o = watch::run(&c, tag);
            RunReport { loghash: simcore::fnv1a(&o.log), nontrivial: o.nontrivial, violations: o.violations, counters: o.counters, sub_runs: 1, sim_time_ms: o.sim_time_ms }
        }
        "determinism" => {
            let c: determinism::DetCase = serde_json::from_value(case.clone()).unwrap_or_else(|e| simcore::harness_error(&format!("bad determinism case: {e}")));
            let o = determinism::run(&c, tag);
            RunReport { loghash: simcore::fnv1a(&o.log), nontrivial: o.nontrivial, violations: o.violations, counters: o.counters, sub_runs: o.configurations, sim_time_ms: 0 }
        }
        "lsp" | "lsploop" => {
            let c: lsp::LspCase = serde_json::from_value(case.clone()).unwrap_or_else(|e| simcore::harness_error(&format!("bad lsp case: {e}")));
            let o = if scenario == "lsploop" { lsploop::run(&c, tag) } else { lsp::run(&c, tag) };
            RunReport { loghash: simcore::fnv1a(&o.log), nontrivial: o.nontrivial, violations: o.violations, counters: o.counters, sub_runs: 1, sim_time_ms: o.sim_time_ms }
        }
        _ => simcore::harness_error(&format!("unknown scenario {scenario}")),
    }
}

#[derive(serde::Serialize, serde::Deserialize, Default)]
struct WireViolation {
    property: String,
    kind: String,
    detail: String,
    step: usize,
}

#[derive(serde::Serialize, serde::Deserialize, Default)]
struct WireReport {
    counters: Vec<(String, u64)>,
    loghash: u64,
    nontrivial: bool,
    sub_runs: u64,
    sim_time_ms: u64,
}

#[derive(serde::Serialize, serde::Deserialize, Default)]
struct WireSession {
    violations: Vec<WireViolation>,
    counters: Vec<(String, u64)>,
    log: Vec<u8>,
    compiles_ok: u64,
    compiles_err: u64,
    faults_fired: u64,
    recovered_after_fault: u64,
    op_counts: Vec<usize>,
    sys_logs: Vec<String>,
}

fn leak(s: String) -> &'static str {
    Box::leak(s.into_boxed_str())
}

/// One session history in a forked child (see isolate.rs); a panic or an abnormal end of the
/// child is a violation of the scenario's property.
fn session_in_child(case: &session::SessionCase, tag: u64, property: &'static str) -> session::Outcome {
    let c = case.clone();
    let wire = isolate::in_child(move || {
        LAST_PANIC.with(|p| p.borrow_mut().clear());
        match catch_unwind(AssertUnwindSafe(|| session::run(&c, tag))) {
            Ok(o) => WireSession {
                violations: o.violations.iter().map(|v| WireViolation { property: v.property.into(), kind: v.kind.into(), detail: v.detail.clone(), step: v.step }).collect(),
                counters: o.counters,
                log: o.log,
                compiles_ok: o.compiles_ok,
                compiles_err: o.compiles_err,
                faults_fired: o.faults_fired,
                recovered_after_fault: o.recovered_after_fault,
                op_counts: o.op_counts,
                sys_logs: o.sys_logs,
            },
            Err(_) => {
                cx::clear_hooks();
                let _ = std::env::set_current_dir("/");
                let _ = std::fs::remove_dir_all(world::scratch_base().join(format!("{tag:016x}")));
                let msg = LAST_PANIC.with(|p| p.borrow().clone());
                WireSession { violations: vec![WireViolation { property: property.into(), kind: "panic".into(), detail: msg, step: 0 }], ..Default::default() }
            }
        }
    });
    let w = wire.unwrap_or_else(|status| WireSession { violations: vec![WireViolation { property: property.into(), kind: "crash".into(), detail: status, step: 0 }], ..Default::default() });
    session::Outcome {
        violations: w.violations.into_iter().map(|v| Violation { property: leak(v.property), kind: leak(v.kind), detail: v.detail, step: v.step }).collect(),
        counters: w.counters,
        log: w.log,
        compiles_ok: w.compiles_ok,
        compiles_err: w.compiles_err,
        faults_fired: w.faults_fired,
        recovered_after_fault: w.recovered_after_fault,
        op_counts: w.op_counts,
        sys_logs: w.sys_logs,
    }
}

/// Executes a case in a forked child (see isolate.rs), turning a panic or a crash of the code
/// under test into a violation. `session_enum` orchestrates its sub-runs from the worker and
/// forks one child per sub-run.
fn exec(scenario: &str, case: &Value) -> (Vec<Value>, Option<RunReport>) {
    if scenario == "session_enum" {
        return exec_here(scenario, case);
    }
    let (sc, cs) = (scenario.to_string(), case.clone());
    let answer = isolate::in_child(move || {
        let (v, rep) = exec_here(&sc, &cs);
        (v, rep.map(|r| WireReport { counters: r.counters, loghash: r.loghash, nontrivial: r.nontrivial, sub_runs: r.sub_runs, sim_time_ms: r.sim_time_ms }))
    });
    match answer {
        Ok((v, rep)) => (v, rep.map(|r| RunReport { violations: vec![], counters: r.counters, loghash: r.loghash, nontrivial: r.nontrivial, sub_runs: r.sub_runs, sim_time_ms: r.sim_time_ms })),
        Err(status) => {
            let _ = std::fs::remove_dir_all(world::scratch_base().join(format!("{:016x}", case_tag(case))));
            (vec![json!({"property": scenario_property_for_panic(scenario), "kind": "crash", "detail": status, "step": -1})], None)
        }
    }
}

fn exec_here(scenario: &str, case: &Value) -> (Vec<Value>, Option<RunReport>) {
    LAST_PANIC.with(|p| p.borrow_mut().clear());
    match catch_unwind(AssertUnwindSafe(|| run_case(scenario, case))) {
        Ok(rep) => {
            let v = rep
                .violations
                .iter()
                .map(|x| json!({"property": x.property, "kind": x.kind, "detail": x.detail, "step": x.step}))
                .collect();
            (v, Some(rep))
        }
        Err(_) => {
            cx::clear_hooks();
            let _ = std::env::set_current_dir("/");
            let _ = std::fs::remove_dir_all(world::scratch_base().join(format!("{:016x}", case_tag(case))));
            let msg = LAST_PANIC.with(|p| p.borrow().clone());
            (vec![json!({"property": scenario_property_for_panic(scenario), "kind": "panic", "detail": msg, "step": -1})], None)
        }
    }
}

/// Constant warm-up of the process that executes histories (worker, replay, minimiser
/// candidate): every snippet of the pool is compiled once (alone and with the snippets it
/// depends on), under every schema and extension variant, and the synthetic names of the
/// `fsplan` scenario are interned, all in a fixed order. Afterwards every name that can key a
/// hash map of the code under test (entity, selectable and artifact file names) has the same
/// intern id in every process, whatever histories ran before; lazily initialised statics are
/// built as a side effect. Paths and generated strings are not covered: they never key a map
/// whose iteration order reaches the disk (the selftest watches exactly that).
fn warm_up(scenario: &str) {
    use intern::string_key::Intern;
    use world::EdOp;
    world::WARM_UP_SCRATCH.store(true, std::sync::atomic::Ordering::Relaxed);
    let warm = |files: &[(usize, usize)], schema: usize, ext: usize, tag: u64| {
        let _ = catch_unwind(AssertUnwindSafe(|| {
            let w = world::World::create(0x7761726d00 + tag);
            for d in [0usize, 1, 2, 3, 6] {
                let _ = std::fs::create_dir_all(w.abs(world::DIRS[d]));
            }
            for (p, s) in files {
                w.apply(&EdOp::Write(*p, *s));
            }
            w.apply(&EdOp::WriteSchema(schema));
            w.apply(&EdOp::WriteExt(ext));
            cx::install_sorted_enumeration();
            let _ = cx::fresh_view(&w);
            cx::clear_hooks();
            let _ = std::env::set_current_dir("/");
            w.destroy();
        }));
    };
    // every source path of the world, in enumeration order (relative paths are interned too and
    // key ordered maps)
    let everywhere: Vec<(usize, usize)> = world::PATHS.iter().enumerate().filter(|(_, p)| p.source && !p.rel.ends_with("Blob.ts")).map(|(i, _)| (i, 11usize)).collect();
    warm(&everywhere, 0, 0, 99);
    for i in 0..world::SNIPPETS.len() {
        // the snippet with the two snippets most others select from (avatar, card)
        warm(&[(0, i), (1, 0), (2, 3)], 0, 0, i as u64);
    }
    let all_valid: Vec<(usize, usize)> = [2usize, 0, 3, 4, 5, 6, 7, 12, 13].iter().enumerate().map(|(k, s)| ([0usize, 1, 2, 3, 4, 5, 6, 7, 8][k], *s)).collect();
    for schema in 0..world::SCHEMA_VARIANTS.len() {
        for ext in 0..world::EXT_VARIANTS.len() {
            warm(&all_valid, schema, ext, 100 + (schema * 10 + ext) as u64);
        }
    }
    for name in fsplan::VOCABULARY {
        let _ = name.intern();
    }
    // a few constant histories of the scenario itself through the full code paths (write
    // phase, incremental updates, GC, watch loop, language-server handlers): statics that are
    // initialised lazily on those paths would otherwise be built inside the first history and
    // shift the per-thread sequence of std hash-map keys for that history only
    let warm_scenarios: &[&str] = match scenario {
        "session_clean" | "session_faults" | "session_enum" => &["session_clean", "session_faults"],
        "fsplan" => &["fsplan"],
        "watch" => &["session_clean", "watch"],
        "lsp" => &["session_clean", "lsp"],
        "lsploop" => &["session_clean", "lsp", "lsploop"],
        _ => &[],
    };
    for sc in warm_scenarios {
        for k in 1..=6u64 {
            let case = generate_case(sc, derive_seed(0x7761726d ^ salt(sc), k));
            let (sc, case) = (sc.to_string(), case);
            let _ = isolate::on_fresh_thread(move || exec_here(&sc, &case).0);
        }
    }
    let _ = std::fs::remove_dir_all(world::scratch_base());
    world::WARM_UP_SCRATCH.store(false, std::sync::atomic::Ordering::Relaxed);
}

fn worker(args: &[String]) {
    let scenario = arg_value(args, "--scenario").unwrap_or_default();
    warm_up(&scenario);
    let base = arg_u64(args, "--base", 0);
    let start = arg_u64(args, "--start", 0);
    let count = arg_u64(args, "--count", 0);
    let loghash = args.iter().any(|a| a == "--loghash");
    let mut rep = BlockReport::default();
    for index in start..start + count {
        rep.begin_run(index);
        let seed = derive_seed(base ^ salt(&scenario), index);
        let case = generate_case(&scenario, seed);
        let (violations, report) = exec(&scenario, &case);
        rep.count("runs", 1);
        for v in violations {
            let mut obj = v.as_object().unwrap().clone();
            obj.insert("engine".into(), json!("sim_world"));
            obj.insert("scenario".into(), json!(scenario));
            obj.insert("index".into(), json!(index));
            obj.insert("seed".into(), json!(seed));
            // an enumerated violation carries its explicit faulted case
            let detail = obj.get("detail").and_then(|d| d.as_str()).unwrap_or("").to_string();
            if let Some((d, c)) = detail.split_once(" CASE=") {
                obj.insert("detail".into(), json!(d));
                obj.insert("case".into(), serde_json::from_str(c).unwrap_or(case.clone()));
                obj.insert("scenario".into(), json!("session_faults"));
            } else {
                obj.insert("case".into(), case.clone());
            }
            rep.violation(&Value::Object(obj));
            rep.count("violations_seen", 1);
        }
        if let Some(r) = report {
            rep.count("sub_runs", r.sub_runs);
            rep.count("simulated_time_ms", r.sim_time_ms);
            for (k, n) in &r.counters {
                rep.count(k, *n);
            }
            if r.nontrivial {
                rep.count("nontrivial_runs", 1);
                rep.nontrivial_case(case_tag(&case));
                if rep.samples.len() < 2 {
                    rep.sample(json!({"scenario": scenario, "seed": seed, "case": case}));
                }
            }
            if loghash {
                rep.loghash(index, r.loghash);
            }
        } else if loghash {
            rep.loghash(index, 0xdead);
        }
    }
    rep.finish();
}

fn exec_json() {
    let mut text = String::new();
    use std::io::Read as _;
    std::io::stdin().read_to_string(&mut text).ok();
    let v: Value = serde_json::from_str(&text).unwrap_or_else(|e| simcore::harness_error(&format!("exec-json: {e}")));
    let scenario = v["scenario"].as_str().unwrap_or("").to_string();
    warm_up(&scenario);
    let (violations, rep) = exec(&scenario, &v["case"]);
    println!("{}", json!({"violations": violations, "loghash": rep.map(|r| format!("{:016x}", r.loghash))}));
}

fn classify_in_child(scenario: &str, case: &Value) -> Vec<(String, String, String)> {
    let exe = std::env::current_exe().unwrap();
    let input = json!({"scenario": scenario, "case": case}).to_string();
    let (status, stdout) = runner::run_child_with_stdin(&exe, &["exec-json".to_string()], &input, &determinism::worker_env());
    if status != "ok" {
        if status.contains("exit status: 2") {
            simcore::harness_error("exec-json child reported a harness error");
        }
        return vec![(scenario_property_for_panic(scenario).into(), "crash".into(), status)];
    }
    let v: Value = serde_json::from_str(stdout.lines().last().unwrap_or("")).unwrap_or(json!({"violations": []}));
    v["violations"]
        .as_array()
        .cloned()
        .unwrap_or_default()
        .iter()
        .map(|x| (x["property"].as_str().unwrap_or("").to_string(), x["kind"].as_str().unwrap_or("").to_string(), x["detail"].as_str().unwrap_or("").to_string()))
        .collect()
}

fn fails_with(scenario: &str, case: &Value, property: &str, kind: &str) -> bool {
    classify_in_child(scenario, case).iter().any(|(p, k, _)| p == property && k == kind)
}

/// Delta debugging over the case's step list (every scenario keeps its history under
/// "steps"); other fields stay as they are.
fn minimise(scenario: &str, case: Value, property: &str, kind: &str) -> (Value, usize) {
    let Some(steps) = case.get("steps").and_then(|s| s.as_array()).cloned() else {
        return (case, 0);
    };
    let budget = if scenario == "watch" || scenario == "lsp" || scenario == "lsploop" || scenario == "determinism" { 400 } else { 1200 };
    let (min_steps, st) = simcore::shrink::ddmin(steps, budget, |cand| {
        let mut c = case.clone();
        c["steps"] = Value::Array(cand.to_vec());
        fails_with(scenario, &c, property, kind)
    });
    let mut out = case.clone();
    out["steps"] = Value::Array(min_steps);
    (out, st.candidates)
}

fn write_replay(property: &str, kind: &str, seed: u64, scenario: &str, detail: &str, case: &Value, original_steps: usize) -> std::path::PathBuf {
    let dir = verif_root().join("replays");
    let _ = std::fs::create_dir_all(&dir);
    let path = dir.join(format!("{property}-sim_world-{scenario}-{seed:016x}.json"));
    let v = json!({"engine": "sim_world", "scenario": scenario, "property": property, "seed": seed,
        "expect": {"property": property, "kind": kind}, "detail": detail, "original_steps": original_steps, "case": case});
    std::fs::write(&path, serde_json::to_string_pretty(&v).unwrap()).unwrap_or_else(|e| simcore::harness_error(&format!("cannot write replay: {e}")));
    path
}

fn replay(path: &str) -> i32 {
    let text = std::fs::read_to_string(path).unwrap_or_else(|e| simcore::harness_error(&format!("{path}: {e}")));
    let v: Value = serde_json::from_str(&text).unwrap_or_else(|e| simcore::harness_error(&format!("{path}: {e}")));
    let scenario = v["scenario"].as_str().unwrap_or("");
    let property = v["expect"]["property"].as_str().unwrap_or("");
    let kind = v["expect"]["kind"].as_str().unwrap_or("");
    let found = classify_in_child(scenario, &v["case"]);
    for (p, k, d) in &found {
        println!("replay: violation property={p} kind={k}: {d}");
    }
    if found.iter().any(|(p, k, _)| p == property && k == kind) {
        println!("VIOLATION property={property} replay={path}");
        simcore::EXIT_VIOLATION
    } else {
        println!("replay: {path}: expected ({property},{kind}) did not reproduce");
        simcore::EXIT_OK
    }
}

struct Plan {
    scenarios: Vec<(&'static str, u64)>,
    level: &'static str,
    rule: &'static str,
}

fn plan_for(property: &str, tier: &str) -> Plan {
    let t = |q: u64, th: u64| if tier == "thorough" { th } else { q };
    match property {
        "C17" => Plan { scenarios: vec![("session_clean", t(20_000, 600_000)), ("watch", t(6_000, 150_000))], level: "exploration",
            rule: "one case = capacity + a history of editor ops on a small project (valid / invalid snippets, schema and extension variants), compiles, process restarts (with stray content written into the artifact directory) and GCs; around every compile that reports diagnostics without an injected fault, seam H3 must have seen no file-system operation and the before/after snapshots of the artifact tree (paths and bytes) must be equal. Non-trivial: at least one successful and one failing compile (or two successful ones) in the run. Distinct = distinct case hash." },
        "C18" => Plan { scenarios: vec![("session_clean", t(5_000, 400_000)), ("fsplan", t(30_000, 3_000_000)), ("watch", t(5_000, 150_000))], level: "exploration",
            rule: "session runs as in C17: after every successful unfaulted compile the artifact tree must equal that compile's artifact map exactly (files, bytes, no directory without an artifact below it), for the first compile of a session whatever the directory held, and later compiles of a session must not write a file whose content did not change; an unfaulted compile that fails in the write phase is a violation. fsplan runs: seeded sequences of synthetic artifact sets (root only, nested only, mixed, empty, entities/selectables/files added and removed, equal and changed contents) through the real planner and writer with restarts and prior garbage. Non-trivial: session as C17; fsplan = the run saw both a DeleteDirectory and a DeleteFile from the diff path. Distinct = distinct case hash." },
        "C19" => Plan { scenarios: vec![("session_enum", t(32, 3_000)), ("session_faults", t(4_000, 300_000)), ("watch", t(4_000, 150_000))], level: "fault_enumeration",
            rule: "enumeration: for each seeded base history, every operation index of every compile x 9 fault kinds (EIO/ENOSPC/EACCES before the op, op applied then error, torn write, partial directory removal, kill before/after/torn) x {same session, process restart}, each followed by a clean compile: if that compile succeeds the artifact tree must equal its artifact map. Sampling: seeded histories with faults at random operation indices, followed by edits and further compiles. evaluations counts executed histories (sub-runs). Non-trivial: a fault fired (enumeration: the base history had at least one write phase). Distinct = distinct base case hash." },
        "C20" => Plan { scenarios: vec![("watch", t(10_000, 300_000))], level: "exploration",
            rule: "one case = initial project + a history of editor operations (create/modify/delete/rename files incl. non-source and binary files, mkdir, recursive rmdir, rename folder, schema and extension edits), flushes of the debouncer and GCs; the kernel->notify mapping is a stub calibrated against inotify, the debouncer is notify-debouncer-full's own data structure fed with simulated time, categorisation and the watch loop are the real code (seams H5/H6). At each quiescent point the loop's artifacts/diagnostics and the artifact directory must equal a fresh batch compile of the tree, and the loop must still be running. Non-trivial: at least two processed batches and a folder-level event or a batch categorised before a later edit. Distinct = distinct case hash." },
        "C14" => Plan { scenarios: vec![("determinism", t(300, 30_000))], level: "exploration",
            rule: "one case = a project state (seeded files from the pool, or a checked-in demo project) compiled in 4-6 configurations that differ in hash seed (getrandom seam), directory enumeration permutation (seam H7) and content-preserving re-layouts (rename files, move between folders) which change discovery and interning order; every configuration runs in a fresh process; artifact maps (and diagnostics, for configurations that share file names) must be identical. Non-trivial: the project compiles to artifacts or to >= 2 diagnostics. Distinct = distinct case hash." },
        "C21" => Plan { scenarios: vec![("lsp", t(15_000, 300_000)), ("lsploop", t(6_000, 150_000))], level: "exploration",
            rule: "one case = project + a history of didOpen/didChange/didClose notifications, on-disk edits delivered as file-system batches, diagnostics computations and requests (semantic tokens, formatting, hover, definition); the select! loop is replaced by the driver choosing one ready arm per step, handlers and state are the real code. At quiescent points and for every request the answers and the effective diagnostics must equal those of a freshly started server on the same disk tree with the same open buffers. Non-trivial: a buffer was opened after diagnostics were first computed, or a buffer differs from disk. Distinct = distinct case hash." },
        _ => simcore::harness_error("unknown property for sim_world"),
    }
}

fn run(args: &[String]) -> i32 {
    let property = arg_value(args, "--property").unwrap_or_else(|| simcore::harness_error("--property"));
    let tier = arg_value(args, "--tier").or_else(|| std::env::var("VERIF_TIER").ok()).unwrap_or_else(|| "quick".into());
    let seed = simcore::env_u64("VERIF_SEED", 0);
    let workers = simcore::env_u64("VERIF_WORKERS", 16) as usize;
    let plan = plan_for(&property, &tier);
    let runs_override = arg_value(args, "--runs").and_then(|s| s.parse::<u64>().ok());
    let root = verif_root();
    println!("sim_world property={property} tier={tier} VERIF_SEED={seed} workers={workers}");
    let start = std::time::Instant::now();
    let mut counters: BTreeMap<String, u64> = BTreeMap::new();
    let mut samples: Vec<Value> = Vec::new();
    let mut violations: Vec<Value> = Vec::new();
    let mut crashes: Vec<(String, runner::Crash)> = Vec::new();
    let mut distinct = 0u64;
    let mut runs_done = 0u64;
    for (scenario, runs) in &plan.scenarios {
        let runs = runs_override.unwrap_or(*runs);
        let block = match *scenario {
            "session_enum" => 1,
            "determinism" => 4,
            // every worker process pays a constant warm-up (about 50 compiles), so blocks are
            // large: two blocks per worker
            "fsplan" => if tier == "thorough" { 5000 } else { (runs / (2 * workers as u64)).clamp(200, 5000) },
            _ => if tier == "thorough" { 1000 } else { (runs / (2 * workers as u64)).clamp(50, 1000) },
        };
        let cfg = BatchConfig {
            exe: std::env::current_exe().unwrap(),
            worker_args: vec!["worker".into(), "--scenario".into(), scenario.to_string(), "--base".into(), seed.to_string()],
            total_runs: runs,
            block,
            workers,
            max_wall_s: simcore::env_u64("VERIF_MAX_WALL_S", if tier == "thorough" { 1500 } else { 100 }) as f64,
            max_violations: 16,
            env: {
                let mut env = determinism::worker_env();
                if tier == "thorough" {
                    // libc call indices enumerated per compile (all of them below this number)
                    env.push(("SIM_ENUM_SYS_INDICES".into(), "48".into()));
                }
                env
            },
        };
        let out = runner::run_batch(&cfg);
        println!("  scenario={scenario} runs={} violations_seen={} crashes={} wall={:.1}s", out.runs_done, out.violations.len(), out.crashes.len(), out.wall_s);
        runs_done += out.runs_done;
        for (k, v) in &out.counters {
            *counters.entry(k.clone()).or_insert(0) += v;
        }
        for s in out.samples {
            if samples.len() < 4 {
                samples.push(s);
            }
        }
        distinct += out.distinct_nontrivial;
        violations.extend(out.violations);
        for c in out.crashes {
            crashes.push((scenario.to_string(), c));
        }
    }
    let mut exit = simcore::EXIT_OK;
    let mut reported = 0u64;

    // known findings
    let known = simcore::known::load(&root);
    for f in known.for_property(&property) {
        let Some(rel) = &f.directed_replay else { continue };
        let path = root.join(rel);
        let Ok(text) = std::fs::read_to_string(&path) else { continue };
        let v: Value = serde_json::from_str(&text).unwrap_or(Value::Null);
        if v["engine"].as_str() != Some("sim_world") {
            continue;
        }
        let sc = v["scenario"].as_str().unwrap_or("");
        let fails = fails_with(sc, &v["case"], v["expect"]["property"].as_str().unwrap_or(""), v["expect"]["kind"].as_str().unwrap_or(""));
        match (f.status.as_str(), fails) {
            ("known", true) => println!("KNOWN-FINDING: property={} {} ({})", property, f.id, f.what),
            ("known", false) => println!("note: known finding {} no longer reproduces", f.id),
            ("fixed", true) => {
                println!("regression: fixed finding {} fails again", f.id);
                println!("VIOLATION property={} replay={}", property, path.display());
                exit = simcore::EXIT_VIOLATION;
                reported += 1;
            }
            _ => {}
        }
    }

    // a worker that died abnormally: a crash of the code under test
    let mut first: Option<(String, Value, String, u64, String)> = None; // scenario, case, kind, seed, detail
    let mine: Vec<&Value> = violations.iter().filter(|v| v["property"].as_str() == Some(property.as_str())).collect();
    let others = violations.len() - mine.len();
    if let Some(v) = mine.first() {
        first = Some((v["scenario"].as_str().unwrap_or("").to_string(), v["case"].clone(), v["kind"].as_str().unwrap_or("").to_string(), v["seed"].as_u64().unwrap_or(0), v["detail"].as_str().unwrap_or("").to_string()));
    } else if let Some((scenario, c)) = crashes.first() {
        if scenario_property_for_panic(scenario) == property {
            match c.index {
                Some(index) => {
                    let s = derive_seed(seed ^ salt(scenario), index);
                    first = Some((scenario.clone(), generate_case(scenario, s), "crash".into(), s, c.status.clone()));
                }
                None => simcore::harness_error(&format!("worker died before its first run: {} {}", c.status, c.stderr_tail)),
            }
        }
    }
    if let Some((scenario, case, kind, vseed, detail)) = first {
        println!("  violation property={property} kind={kind} scenario={scenario} seed={vseed:#x}: {detail}");
        if !fails_with(&scenario, &case, &property, &kind) {
            simcore::harness_error("violation does not reproduce in a fresh process (nondeterminism in the harness)");
        }
        let original = case.get("steps").and_then(|s| s.as_array()).map(|a| a.len()).unwrap_or(0);
        let (min, used) = minimise(&scenario, case, &property, &kind);
        let detail = classify_in_child(&scenario, &min).into_iter().find(|(p, k, _)| *p == property && *k == kind).map(|x| x.2).unwrap_or_default();
        println!("  minimised {original} -> {} steps with {used} candidate executions: {detail}", min.get("steps").and_then(|s| s.as_array()).map(|a| a.len()).unwrap_or(0));
        let path = write_replay(&property, &kind, vseed, &scenario, &detail, &min, original);
        if !fails_with(&scenario, &min, &property, &kind) {
            simcore::harness_error("minimised replay does not reproduce in a fresh process");
        }
        println!("VIOLATION property={property} replay={}", path.display());
        exit = simcore::EXIT_VIOLATION;
        reported += 1;
    }

    let wall = start.elapsed().as_secs_f64();
    let sub_runs = counters.get("sub_runs").copied().unwrap_or(runs_done);
    let mut extra = serde_json::Map::new();
    let mut faults = serde_json::Map::new();
    let mut probes = serde_json::Map::new();
    let mut other = serde_json::Map::new();
    for (k, v) in &counters {
        if let Some(n) = k.strip_prefix("fault.") {
            faults.insert(n.to_string(), json!(v));
        } else if let Some(n) = k.strip_prefix("probe.") {
            probes.insert(n.to_string(), json!(v));
        } else {
            other.insert(k.clone(), json!(v));
        }
    }
    extra.insert("faults_fired".into(), Value::Object(faults));
    extra.insert("probes".into(), Value::Object(probes));
    extra.insert("counters".into(), Value::Object(other));
    extra.insert("cases".into(), json!(runs_done));
    extra.insert("runs_per_hour".into(), json!((sub_runs as f64 / wall.max(0.001) * 3600.0) as u64));
    extra.insert("simulated_time_ms".into(), json!(counters.get("simulated_time_ms").copied().unwrap_or(0)));
    extra.insert("seeds".into(), json!(format!("VERIF_SEED={seed}; run i of scenario s uses derive_seed(VERIF_SEED ^ fnv(s), i)")));
    extra.insert("violations_of_other_properties_seen".into(), json!(others));
    if property == "C20" && tier == "thorough" {
        // calibration of the kernel->notify stub + vendored debouncer queue against the real
        // notify-debouncer-full over real inotify (needs ~25 s of real time; differences are
        // reported, they are not violations of C20: they are about the stub)
        let (agree, total, report) = watch::calibrate();
        println!("  calibration: {agree} of {total} editor scenarios deliver the same events through the real watcher and through the stub");
        extra.insert("traces_validated_against_impl".into(), json!(agree));
        extra.insert("calibration".into(), json!({"scenarios": total, "agree": agree, "report": report}));
    }
    if property == "C19" {
        extra.insert("exhaustive".into(), json!(true));
        extra.insert("exhaustive_scope".into(), json!("every operation index x 9 fault kinds x {same session, restart} of the base histories of scenario session_enum; the session_faults part samples"));
    }
    extra.insert("components_real".into(), json!(["isograph_compiler::{CompilerState, compile, update_sources, handle_watch_command, categorisation}", "artifact_content::{get_artifact_path_and_content, FileSystemState}", "isograph_schema (validation, database)", "pico (with LRU capacity override)", "std::fs on tmpfs (through the interposed libc entry points)", "isograph_lsp request / notification handlers, LspState, diagnostics publishing", "isograph_lsp::server::run (the select! loop and its debounce timer, scenario lsploop, under tokio's paused clock)"]));
    extra.insert("components_stubbed".into(), json!(["kernel->notify event mapping (calibrated stub)", "debounce timing: notify-debouncer-full's event queue logic re-implemented over simulated time (see DESIGN.md 5.1)", "language-server select! loop skeleton in scenario lsp (scenario lsploop runs the real loop; the stdio transport and the crossbeam->tokio bridge thread stay stubbed)", "I/O faults are injected at the operation seam H3 and at the libc entry points (LD_PRELOAD), not in the kernel; the file system is tmpfs"]));
    let ev = Evidence {
        property_id: property.clone(),
        tier: tier.clone(),
        seed,
        level: plan.level.into(),
        evaluations: sub_runs.max(runs_done),
        distinct_nontrivial: distinct,
        rule: plan.rule.into(),
        samples,
        extra,
        assumptions: vec![
            "the file contents come from a fixed pool of snippets over one schema: this check searches histories, schedules and faults, not compiler inputs".into(),
            "faults are injected at the operation boundary of apply_file_system_operations (seam H3) and at the libc calls std::fs makes below the artifact directory (LD_PRELOAD seam: error, performed-then-error, torn write, full disk, kill at a call, short writes, EINTR); power loss / fsync ordering is not modelled".into(),
            "every history runs on a fresh thread after the hash-seed stream was restarted, in a process warmed up by a constant sequence of compiles that pins the intern ids of every name keying a hash map; ./check --selftest compares this against one forked child per history".into(),
        ],
        wall_s: wall,
        violations: reported,
    };
    ev.write(&root);
    println!("sim_world property={property} cases={runs_done} executions={sub_runs} distinct_nontrivial={distinct} wall={wall:.1}s exit={exit}");
    exit
}

fn selftest(args: &[String]) -> i32 {
    let runs = arg_u64(args, "--runs", 300);
    let mut bad = 0;
    for scenario in ["session_clean", "session_faults", "fsplan", "watch", "lsp", "lsploop", "determinism"] {
        let runs = if scenario == "determinism" { runs / 10 } else { runs };
        let mut maps = Vec::new();
        for (workers, block) in [(1usize, runs), (16usize, 7)] {
            let cfg = BatchConfig {
                exe: std::env::current_exe().unwrap(),
                worker_args: vec!["worker".into(), "--scenario".into(), scenario.into(), "--base".into(), "7".into(), "--loghash".into()],
                total_runs: runs,
                block,
                workers,
                max_wall_s: 0.0,
                max_violations: usize::MAX,
                env: determinism::worker_env(),
            };
            maps.push(runner::run_batch(&cfg).loghashes);
        }
        let diff = maps[0].iter().filter(|(k, v)| maps[1].get(k) != Some(v)).count();
        println!("selftest scenario={scenario} runs={runs} compared={} mismatches={diff}", maps[0].len().min(maps[1].len()));
        if diff > 0 || maps[0].len() != runs as usize || maps[1].len() != runs as usize {
            bad += 1;
        }
        // cross-check against exact isolation: the same runs, each in a forked child that starts
        // from the warmed-up state (SIM_FORK=1, see isolate.rs)
        let fork_runs = runs.min(if scenario == "determinism" { 10 } else { 150 });
        let mut env = determinism::worker_env();
        env.push(("SIM_FORK".into(), "1".into()));
        let cfg = BatchConfig {
            exe: std::env::current_exe().unwrap(),
            worker_args: vec!["worker".into(), "--scenario".into(), scenario.into(), "--base".into(), "7".into(), "--loghash".into()],
            total_runs: fork_runs,
            block: 10,
            workers: 16,
            max_wall_s: 0.0,
            max_violations: usize::MAX,
            env,
        };
        let forked = runner::run_batch(&cfg).loghashes;
        let fdiff = forked.iter().filter(|(k, v)| maps[0].get(k) != Some(v)).count();
        println!("selftest scenario={scenario} forked-child cross-check runs={} mismatches={fdiff}", forked.len());
        if fdiff > 0 || forked.len() != fork_runs as usize {
            bad += 1;
        }
    }
    if bad > 0 {
        simcore::EXIT_HARNESS
    } else {
        simcore::EXIT_OK
    }
}

fn snippets() {
    // development aid: what does each pool snippet compile to on its own / with its dependencies?
    for (i, (name, _)) in world::SNIPPETS.iter().enumerate() {
        let w = world::World::create(0xabc000 + i as u64);
        let _ = std::fs::create_dir_all(w.abs("src/a"));
        w.apply(&world::EdOp::Write(0, i));
        for dep in [0usize, 3] {
            if dep != i {
                let _ = std::fs::write(w.abs(&format!("src/a/dep{dep}.ts")), world::SNIPPETS[dep].1);
            }
        }
        let v = cx::fresh_view(&w);
        println!("{i:2} {name:12} -> {}", v.summary());
        let _ = std::env::set_current_dir("/");
        w.destroy();
    }
}

fn main() {
    let args: Vec<String> = std::env::args().collect();
    let code = match args.get(1).map(|s| s.as_str()).unwrap_or("") {
        "run" => run(&args),
        "worker" => {
            install_quiet_panic_hook();
            worker(&args);
            0
        }
        "exec-json" => {
            install_quiet_panic_hook();
            exec_json();
            0
        }
        "det-child" => {
            install_quiet_panic_hook();
            determinism::child_main(&args);
            0
        }
        "minimise-index" => {
            // development aid: regenerate run <index> of a scenario, minimise one of its violations
            let scenario = arg_value(&args, "--scenario").unwrap_or_default();
            let index = arg_u64(&args, "--index", 0);
            let base = simcore::env_u64("VERIF_SEED", 0);
            let seed = derive_seed(base ^ salt(&scenario), index);
            let case = generate_case(&scenario, seed);
            let found = classify_in_child(&scenario, &case);
            let want_kind = arg_value(&args, "--kind");
            let pick = found.iter().find(|(_, k, _)| want_kind.as_deref().map(|w| w == k).unwrap_or(true));
            match pick {
                None => {
                    println!("no violation in run {index}");
                    0
                }
                Some((p, k, _)) => {
                    let (min, used) = minimise(&scenario, case, p, k);
                    let detail = classify_in_child(&scenario, &min).into_iter().find(|(pp, kk, _)| pp == p && kk == k).map(|x| x.2).unwrap_or_default();
                    let path = write_replay(p, k, seed, &scenario, &detail, &min, 0);
                    println!("minimised with {used} executions -> {}\n{}\n{}", path.display(), detail, min);
                    0
                }
            }
        }
        "replay" => replay(args.get(2).map(|s| s.as_str()).unwrap_or("")),
        "selftest" => selftest(&args),
        "calibrate" => {
            // development aid (real time, real inotify): the event stub + vendored debouncer
            // queue against the real notify-debouncer-full
            let (agree, total, report) = watch::calibrate();
            for l in &report {
                println!("{l}");
            }
            println!("calibration: {agree} of {total} scenarios agree with the real watcher");
            let root = verif_root();
            let _ = std::fs::write(root.join("evidence").join("calibration-C20.txt"), format!("{}\ncalibration: {agree} of {total} scenarios agree with the real watcher\n", report.join("\n")));
            0
        }
        "snippets" => {
            snippets();
            0
        }
        _ => {
            eprintln!("usage: sim_world run|worker|exec-json|replay|selftest|snippets");
            simcore::EXIT_HARNESS
        }
    };
    std::process::exit(code);
}
