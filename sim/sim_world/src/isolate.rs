//! One forked child per executed history.
//!
//! Process-global state of the code under test leaks from one history into the next: the
//! string interner hands out ids in first-use order and never forgets, and std hash maps
//! keyed by interned ids (e.g. `FileSystemState`) iterate in an order that depends on those
//! ids - so the *order of planned file-system operations*, and with it the meaning of "fault
//! at operation 5" or "fault at libc call 17", would depend on which histories the worker
//! process happened to execute before. Every history therefore runs in a child forked from a
//! worker that never executes a history itself: all children start from the same pristine
//! state, the same one a replay in a fresh process starts from. Inside the child the history
//! runs on a fresh thread started after the hash-seed stream was restarted (std draws the
//! `RandomState` keys per thread).
//!
//! The worker is single threaded when it forks. Measured cost: about 1 ms per history.

use serde::{de::DeserializeOwned, Serialize};
use std::io::Read;
use std::os::fd::FromRawFd;

/// Runs `f` in a forked child and returns what it returned (sent back as JSON over a pipe).
/// `Err` carries the wait status when the child died without an answer (abort, signal).
pub fn in_child<T: Serialize + DeserializeOwned + Send + 'static>(f: impl FnOnce() -> T + Send + 'static) -> Result<T, String> {
    // Default: no fork. The worker pre-interns the whole vocabulary of the simulated world in
    // a constant warm-up (main.rs `warm_up`), which pins the intern ids of every name that keys
    // a hash map, and every history runs on a fresh thread after the hash-seed stream was
    // restarted. `./check --selftest` is the proof that this suffices (the log hash covers the
    // libc call sequence of every write phase). SIM_FORK=1 selects the forked child: exact by
    // construction, but measured 5-18x slower in this VM (page faults of a fresh address
    // space, contention between 16 forking workers).
    if std::env::var("SIM_FORK").is_err() {
        return Ok(on_fresh_thread(f));
    }
    // fork() in a process with other threads can copy a lock that one of them holds (the idle
    // debouncer of a watch history keeps a ticker thread for one more tick after it was
    // dropped): wait until this thread is alone
    for _ in 0..400 {
        let alone = std::fs::read_to_string("/proc/self/status")
            .ok()
            .and_then(|s| s.lines().find_map(|l| l.strip_prefix("Threads:").map(|n| n.trim() == "1")))
            .unwrap_or(true);
        if alone {
            break;
        }
        std::thread::sleep(std::time::Duration::from_millis(5));
    }
    let mut fds = [0 as libc::c_int; 2];
    if unsafe { libc::pipe(fds.as_mut_ptr()) } != 0 {
        simcore::harness_error("pipe() failed");
    }
    // nothing buffered may be written twice
    use std::io::Write as _;
    let _ = std::io::stdout().flush();
    let _ = std::io::stderr().flush();
    let pid = unsafe { libc::fork() };
    if pid < 0 {
        simcore::harness_error("fork() failed");
    }
    if pid == 0 {
        unsafe { libc::close(fds[0]) };
        let value = on_fresh_thread(f);
        let bytes = serde_json::to_vec(&value).unwrap_or_default();
        let mut off = 0;
        while off < bytes.len() {
            let n = unsafe { libc::write(fds[1], bytes[off..].as_ptr() as *const libc::c_void, bytes.len() - off) };
            if n <= 0 {
                break;
            }
            off += n as usize;
        }
        unsafe { libc::_exit(0) };
    }
    unsafe { libc::close(fds[1]) };
    let mut pipe = unsafe { std::fs::File::from_raw_fd(fds[0]) };
    let mut bytes = Vec::new();
    let _ = pipe.read_to_end(&mut bytes);
    let mut status: libc::c_int = 0;
    unsafe { libc::waitpid(pid, &mut status, 0) };
    if libc::WIFEXITED(status) && libc::WEXITSTATUS(status) == 2 {
        simcore::harness_error("the child of a run reported a harness error");
    }
    match serde_json::from_slice::<T>(&bytes) {
        Ok(v) if libc::WIFEXITED(status) && libc::WEXITSTATUS(status) == 0 => Ok(v),
        _ => Err(if libc::WIFSIGNALED(status) { format!("killed by signal {}", libc::WTERMSIG(status)) } else { format!("exit status {}", libc::WEXITSTATUS(status)) }),
    }
}

pub fn on_fresh_thread<T: Send + 'static>(f: impl FnOnce() -> T + Send + 'static) -> T {
    crate::sysfault::reseed_hash_stream(0);
    std::thread::Builder::new()
        .stack_size((simcore::env_u64("SIM_STACK_MB", 64) as usize) << 20)
        .spawn(move || {
            if std::env::var("SIM_DEBUG_HASHSTATE").is_ok() {
                use std::hash::BuildHasher;
                eprintln!("hashstate {:016x}", std::collections::hash_map::RandomState::new().hash_one(1u64));
            }
            f()
        })
        .expect("harness: spawn run thread")
        .join()
        .unwrap_or_else(|_| simcore::harness_error("the run thread itself panicked"))
}
