//! Scenario `watch` (C20): the real watch loop (`handle_watch_command`) fed through seam
//! H5 by a simulated editor, a stub of the kernel->notify mapping, the vendored
//! notify-debouncer-full event queue under simulated time, and the real event
//! categorisation evaluated at flush time.
//!
//! Everything runs on one thread: the loop's only await is `recv()` on the injected
//! channel, which the driver fills from inside the hooks, so there is exactly one runnable
//! task at any time and the run is a pure function of the case.

use crate::cx::{self, Profile, State, View};
use crate::session::Violation;
use crate::world::{self, EdOp, World, DIRS, PATHS};
use debounce_model::{time as simtime, DebounceDataInner, NoCache};
use isograph_compiler::verif_hooks::{self, WatchBatch};
use isograph_config::CompilerConfig;
use notify::event::{AccessKind, AccessMode, CreateKind, DataChange, ModifyKind, RemoveKind, RenameMode};
use notify::{Event, EventKind, RecursiveMode};
use serde::{Deserialize, Serialize};
use simcore::Rng;
use std::cell::RefCell;
use std::collections::{BTreeMap, VecDeque};
use std::path::{Path, PathBuf};
use std::rc::Rc;
use std::time::Duration;

#[derive(Serialize, Deserialize, Clone, Debug, PartialEq, Eq, Hash)]
pub enum WStep {
    /// wait `after_ms`, then the editor performs `op`
    Edit { op: EdOp, after_ms: u16 },
    /// the editor pauses until the debouncer is drained and the loop is idle; the oracle
    /// is evaluated there
    Settle,
    /// the 60 s GC period elapses before the next processed batch
    Gc,
    /// the write phase of the next recompile (not a settle probe) meets this fault at the
    /// system-call seam; the loop must survive it and the directory must be whole again at
    /// the next quiescent point (C19 "in the same watch session")
    FaultNextWrite(crate::sysfault::SysFault),
}

#[derive(Serialize, Deserialize, Clone, Debug, PartialEq, Eq, Hash)]
pub struct WatchCase {
    pub capacity: usize,
    /// files present before the watcher starts: (path index, snippet index)
    pub initial: Vec<(usize, usize)>,
    /// simulated duration of the k-th recompile (cyclic), in milliseconds
    pub compile_ms: Vec<u16>,
    pub steps: Vec<WStep>,
}

pub struct Outcome {
    pub violations: Vec<Violation>,
    pub counters: Vec<(String, u64)>,
    pub log: Vec<u8>,
    pub nontrivial: bool,
    pub sim_time_ms: u64,
}

const TICK_US: u64 = 25_000;
const TIMEOUT_MS: u64 = 100;

struct Batch {
    events: WatchBatch,
    flush_us: u64,
    /// an empty batch sent by the driver to obtain access to the loop's state at a settle point
    probe: bool,
}

struct Driver {
    world_root: PathBuf,
    config: CompilerConfig,
    steps: Vec<WStep>,
    next_step: usize,
    /// time at which steps[next_step] happens (valid for Edit steps)
    now_us: u64,
    next_tick_us: u64,
    debouncer: DebounceDataInner<NoCache>,
    ready: VecDeque<Batch>,
    sender: Option<tokio::sync::mpsc::Sender<WatchBatch>>,
    loop_free_at_us: u64,
    compile_ms: Vec<u16>,
    batches_processed: u64,
    in_flight_probe: bool,
    in_flight_flush_us: u64,
    last_mutation_us: u64,
    mkdir_at: BTreeMap<PathBuf, u64>,
    cookie: usize,
    gc_requested: bool,
    pending_sys: Option<crate::sysfault::SysFault>,
    /// the artifact directory as the previous iteration of the loop left it
    last_tree: Option<world::TreeSnapshot>,
    sys_armed: bool,
    fault_since_clean_probe: bool,
    violations: Vec<Violation>,
    counters: BTreeMap<String, u64>,
    log: Vec<u8>,
    finished: bool,
    folder_event_seen: bool,
    stale_categorisation: u64,
    /// the delay of an Edit step counts from the moment the previous step completed
    step_base_us: Option<u64>,
    last_rename_us: Option<u64>,
    pending_rename_mark: bool,
    /// every debounced event the model delivered (kind, paths relative to the world), for the
    /// calibration against the real watcher
    debounced_log: Vec<(String, Vec<String>)>,
}

fn ev(kind: EventKind, p: &Path) -> Event {
    Event::new(kind).add_path(p.to_path_buf())
}

impl Driver {
    fn new(w: &World, config: CompilerConfig, steps: Vec<WStep>, compile_ms: Vec<u16>, sender: Option<tokio::sync::mpsc::Sender<WatchBatch>>) -> Driver {
        simtime::set_now_micros(0);
        let mut debouncer = DebounceDataInner::new(NoCache, Duration::from_millis(TIMEOUT_MS));
        debouncer.roots = vec![
            (config.config_location.clone(), RecursiveMode::NonRecursive),
            (config.project_root.clone(), RecursiveMode::Recursive),
            (config.schema.absolute_path.clone(), RecursiveMode::NonRecursive),
        ];
        Driver {
            world_root: w.root.clone(),
            config,
            steps,
            next_step: 0,
            now_us: 1_000,
            next_tick_us: TICK_US,
            debouncer,
            ready: VecDeque::new(),
            sender,
            loop_free_at_us: 0,
            compile_ms: if compile_ms.is_empty() { vec![0] } else { compile_ms },
            batches_processed: 0,
            in_flight_probe: false,
            in_flight_flush_us: 0,
            last_mutation_us: 0,
            mkdir_at: BTreeMap::new(),
            cookie: 100,
            gc_requested: false,
            pending_sys: None,
            last_tree: None,
            sys_armed: false,
            fault_since_clean_probe: false,
            violations: vec![],
            counters: BTreeMap::new(),
            log: vec![],
            finished: false,
            folder_event_seen: false,
            stale_categorisation: 0,
            step_base_us: None,
            last_rename_us: None,
            pending_rename_mark: false,
            debounced_log: Vec::new(),
        }
    }

    fn bump(&mut self, k: &str) {
        *self.counters.entry(k.to_string()).or_insert(0) += 1;
    }

    fn world(&self) -> World {
        World { root: self.world_root.clone() }
    }

    fn push_raw(&mut self, e: Event) {
        // every raw event gets its own microsecond
        self.now_us += 1;
        simtime::set_now_micros(self.now_us);
        self.debouncer.add_event(e);
        self.bump("raw_notify_events");
    }

    /// The kernel + notify stub: raw events for an editor operation that was just applied.
    fn emit_raw(&mut self, op: &EdOp, existed_before: bool, children_before: Vec<(PathBuf, bool)>) {
        let w = self.world();
        match op {
            EdOp::Write(p, s) => {
                let path = w.abs(PATHS[*p % PATHS.len()].rel);
                let empty = World::content_for(*p % PATHS.len(), *s).is_empty();
                if !existed_before {
                    self.push_raw(ev(EventKind::Create(CreateKind::File), &path));
                    self.push_raw(ev(EventKind::Access(AccessKind::Open(AccessMode::Any)), &path));
                } else {
                    self.push_raw(ev(EventKind::Modify(ModifyKind::Data(DataChange::Any)), &path));
                    self.push_raw(ev(EventKind::Access(AccessKind::Open(AccessMode::Any)), &path));
                }
                if !empty {
                    self.push_raw(ev(EventKind::Modify(ModifyKind::Data(DataChange::Any)), &path));
                }
                self.push_raw(ev(EventKind::Access(AccessKind::Close(AccessMode::Write)), &path));
            }
            EdOp::AtomicSave(p, s) => {
                let target = w.abs(PATHS[*p % PATHS.len()].rel);
                let tmp = World::temp_path_for(&target);
                let empty = World::content_for(*p % PATHS.len(), *s).is_empty();
                self.push_raw(ev(EventKind::Create(CreateKind::File), &tmp));
                self.push_raw(ev(EventKind::Access(AccessKind::Open(AccessMode::Any)), &tmp));
                if !empty {
                    self.push_raw(ev(EventKind::Modify(ModifyKind::Data(DataChange::Any)), &tmp));
                }
                self.push_raw(ev(EventKind::Access(AccessKind::Close(AccessMode::Write)), &tmp));
                self.emit_rename(tmp, target);
            }
            EdOp::Delete(p) => {
                let path = w.abs(PATHS[*p % PATHS.len()].rel);
                self.push_raw(ev(EventKind::Remove(RemoveKind::File), &path));
            }
            EdOp::Rename(a, b) => {
                let from = w.abs(PATHS[*a % PATHS.len()].rel);
                let to = w.abs(PATHS[*b % PATHS.len()].rel);
                self.emit_rename(from, to);
            }
            EdOp::MkDir(d) => {
                let path = w.abs(DIRS[*d % DIRS.len()]);
                self.push_raw(ev(EventKind::Create(CreateKind::Folder), &path));
                self.mkdir_at.insert(path, self.now_us);
                self.folder_event_seen = true;
            }
            EdOp::RmDirAll(d) => {
                let path = w.abs(DIRS[*d % DIRS.len()]);
                // remove_dir_all is depth first: children, then the directory itself
                for (child, is_dir) in children_before {
                    let kind = if is_dir { RemoveKind::Folder } else { RemoveKind::File };
                    self.push_raw(ev(EventKind::Remove(kind), &child));
                }
                self.push_raw(ev(EventKind::Remove(RemoveKind::Folder), &path));
                self.folder_event_seen = true;
            }
            EdOp::RenameDir(a, b) => {
                let from = w.abs(DIRS[*a % DIRS.len()]);
                let to = w.abs(DIRS[*b % DIRS.len()]);
                self.emit_rename(from, to);
                self.folder_event_seen = true;
            }
            EdOp::WriteSchema(_) | EdOp::WriteExt(_) | EdOp::WriteConfig(_) => {
                let path = match op {
                    EdOp::WriteSchema(_) => w.abs("schema.graphql"),
                    EdOp::WriteExt(_) => w.abs("schema-ext.graphql"),
                    _ => w.abs("isograph.config.json"),
                };
                self.push_raw(ev(EventKind::Modify(ModifyKind::Data(DataChange::Any)), &path));
                self.push_raw(ev(EventKind::Access(AccessKind::Open(AccessMode::Any)), &path));
                self.push_raw(ev(EventKind::Modify(ModifyKind::Data(DataChange::Any)), &path));
                self.push_raw(ev(EventKind::Access(AccessKind::Close(AccessMode::Write)), &path));
            }
        }
    }

    fn emit_rename(&mut self, from: PathBuf, to: PathBuf) {
        self.cookie += 1;
        let c = self.cookie;
        self.push_raw(Event::new(EventKind::Modify(ModifyKind::Name(RenameMode::From))).add_path(from.clone()).set_tracker(c));
        self.push_raw(Event::new(EventKind::Modify(ModifyKind::Name(RenameMode::To))).add_path(to.clone()).set_tracker(c));
        self.push_raw(Event::new(EventKind::Modify(ModifyKind::Name(RenameMode::Both))).add_path(from).add_path(to).set_tracker(c));
    }

    /// One tick of the debouncer thread at simulated time `t`.
    fn tick(&mut self, t: u64) {
        simtime::set_now_micros(t);
        let events = self.debouncer.debounced_events();
        if events.is_empty() {
            return;
        }
        self.bump("debounced_batches");
        for e in &events {
            if !matches!(e.event.kind, EventKind::Access(_)) {
                let root = self.world_root.clone();
                self.debounced_log.push((
                    format!("{:?}", e.event.kind),
                    e.event.paths.iter().map(|p| p.strip_prefix(&root).unwrap_or(p).to_string_lossy().to_string()).collect(),
                ));
            }
        }
        if std::env::var("SIM_DEBUG").is_ok() {
            for e in &events {
                eprintln!("  t={}us debounced {:?} {:?}", t, e.event.kind, e.event.paths.iter().map(|p| p.strip_prefix(&self.world_root).unwrap_or(p).to_path_buf()).collect::<Vec<_>>());
            }
        }
        *self.counters.entry("debounced_events".into()).or_insert(0) += events.len() as u64;
        // the real categorisation, probing the file system as it is at flush time
        if let Some(batch) = verif_hooks::categorize_and_filter_events(&events, &self.config) {
            if std::env::var("SIM_DEBUG").is_ok() {
                for (k, _) in &batch {
                    eprintln!("  t={}us delivered {:?}", t, k);
                }
            }
            self.ready.push_back(Batch { events: Ok(batch), flush_us: t, probe: false });
            self.bump("batches_delivered");
        } else {
            self.bump("batches_filtered_out");
        }
    }

    fn debouncer_idle(&mut self) -> bool {
        self.debouncer.is_idle()
    }

    /// The editor idles until `t`; the debouncer thread keeps ticking meanwhile.
    fn wait_until(&mut self, t: u64) {
        while self.next_tick_us <= t {
            let tick = self.next_tick_us;
            self.now_us = tick.max(self.now_us);
            self.next_tick_us = tick + TICK_US;
            self.tick(tick);
        }
        self.now_us = self.now_us.max(t);
    }

    /// Apply editor step `i` at the current time.
    fn do_edit(&mut self, op: &EdOp) {
        let w = self.world();
        // calibration boundary: a file created in the same instant as its directory is lost by
        // the real watcher; the simulated editor waits at least 5 ms after mkdir
        if let EdOp::Write(p, _) = op {
            let path = w.abs(PATHS[*p % PATHS.len()].rel);
            if let Some(parent) = path.parent() {
                if let Some(t) = self.mkdir_at.get(parent).copied() {
                    self.wait_until(t + 5_000);
                }
            }
        }
        // calibration boundary: notify-debouncer-full collapses "rename a -> b, then remove or
        // rename b" inside its window into an event about b alone (push_remove_event replaces
        // the queue that held the rename), so nobody downstream can learn that `a` is gone. The
        // simulated editor lets the window (timeout + one tick) pass after a rename before it
        // removes or renames anything.
        if matches!(op, EdOp::Delete(_) | EdOp::Rename(..) | EdOp::RmDirAll(_) | EdOp::RenameDir(..) | EdOp::AtomicSave(..)) {
            if let Some(t) = self.last_rename_us {
                self.wait_until(t + (TIMEOUT_MS * 1000) + TICK_US + 5_000);
            }
        }
        if matches!(op, EdOp::Rename(..) | EdOp::RenameDir(..) | EdOp::AtomicSave(..)) {
            self.pending_rename_mark = true;
        }
        let (existed, children) = match op {
            EdOp::Write(p, _) => (w.abs(PATHS[*p % PATHS.len()].rel).is_file(), vec![]),
            EdOp::RmDirAll(d) => {
                let dir = w.abs(DIRS[*d % DIRS.len()]);
                let mut v = Vec::new();
                fn walk(dir: &Path, out: &mut Vec<(PathBuf, bool)>) {
                    let mut entries: Vec<_> = std::fs::read_dir(dir).into_iter().flatten().flatten().map(|e| e.path()).collect();
                    entries.sort();
                    for e in entries {
                        if e.is_dir() {
                            walk(&e, out);
                            out.push((e, true));
                        } else {
                            out.push((e, false));
                        }
                    }
                }
                walk(&dir, &mut v);
                (true, v)
            }
            _ => (false, vec![]),
        };
        let is_rename = std::mem::take(&mut self.pending_rename_mark);
        if w.apply(op) {
            self.last_mutation_us = self.now_us;
            self.emit_raw(op, existed, children);
            if is_rename {
                self.last_rename_us = Some(self.now_us);
            }
            self.bump("edits_applied");
            self.log.push(1);
        } else {
            self.bump("edits_skipped");
            self.log.push(0);
        }
    }

    /// Advance the world (editor steps and debouncer ticks, in time order) up to time `t`.
    /// Stops early at a Settle / Gc step boundary. Returns true if it stopped at a Settle.
    fn advance_to(&mut self, t: u64) -> bool {
        loop {
            // next editor event time
            let next_edit: Option<u64> = match self.steps.get(self.next_step) {
                Some(WStep::Edit { after_ms, .. }) => Some(self.step_time(*after_ms)),
                _ => None,
            };
            let tick = self.next_tick_us;
            // a flushed batch that the idle loop would pick up before the next editor step or
            // tick goes to the loop first
            if let Some(b) = self.ready.front() {
                let start = b.flush_us.max(self.loop_free_at_us);
                let next_event = next_edit.map(|te| te.min(tick)).unwrap_or(tick);
                if start <= t && start < next_event {
                    self.now_us = self.now_us.max(start);
                    return false;
                }
            }
            match next_edit {
                Some(te) if te <= t && te <= tick => {
                    self.now_us = te.max(self.now_us);
                    if let Some(WStep::Edit { op, .. }) = self.steps.get(self.next_step).cloned() {
                        self.next_step += 1;
                        self.step_base_us = None;
                        self.do_edit(&op);
                    }
                }
                _ if tick <= t => {
                    self.now_us = tick.max(self.now_us);
                    self.next_tick_us = tick + TICK_US;
                    self.tick(tick);
                }
                _ => {
                    // nothing left before t
                    match self.steps.get(self.next_step) {
                        Some(WStep::Gc) if next_edit.is_none() => {
                            self.gc_requested = true;
                            self.next_step += 1;
                            continue;
                        }
                        Some(WStep::FaultNextWrite(f)) if next_edit.is_none() => {
                            self.pending_sys = Some(*f);
                            self.next_step += 1;
                            continue;
                        }
                        Some(WStep::Settle) => {
                            self.now_us = self.now_us.max(t);
                            return true;
                        }
                        _ => {}
                    }
                    self.now_us = self.now_us.max(t);
                    return false;
                }
            }
        }
    }

    fn step_time(&mut self, after_ms: u16) -> u64 {
        // the delay of an Edit step counts from the moment the previous step completed
        let base = *self.step_base_us.get_or_insert(self.now_us);
        base + after_ms as u64 * 1000
    }
}

/// Decide what the loop receives next. Called from inside the hooks.
/// Returns None when the history is finished (the sender is dropped and the loop ends).
fn next_for_loop(d: &mut Driver) -> Option<Batch> {
    loop {
        // 1. a batch that is already flushed when the loop becomes free
        if let Some(b) = d.ready.front() {
            let start = b.flush_us.max(d.loop_free_at_us);
            // the editor keeps editing until the loop actually starts on this batch
            let stopped_at_settle = d.advance_to(start);
            let _ = stopped_at_settle;
            let b = d.ready.pop_front().unwrap();
            if d.last_mutation_us > b.flush_us {
                d.stale_categorisation += 1;
            }
            d.loop_free_at_us = start;
            return Some(b);
        }
        // 2. nothing flushed yet: move time forward
        match d.steps.get(d.next_step).cloned() {
            Some(WStep::Edit { after_ms, .. }) => {
                let te = d.step_time(after_ms);
                d.advance_to(te);
            }
            Some(WStep::Gc) => {
                d.gc_requested = true;
                d.next_step += 1;
            }
            Some(WStep::FaultNextWrite(f)) => {
                d.pending_sys = Some(f);
                d.next_step += 1;
            }
            Some(WStep::Settle) | None => {
                // drain the debouncer: advance tick by tick until it is empty
                if !d.debouncer_idle() {
                    let t = d.next_tick_us;
                    d.advance_to(t);
                    continue;
                }
                // quiescent: editor idle, debouncer empty, nothing queued, loop idle
                if d.steps.get(d.next_step).is_some() {
                    d.next_step += 1; // consume the Settle
                    d.step_base_us = None;
                } else if d.finished {
                    return None;
                } else {
                    d.finished = true;
                }
                // the oracle needs the loop's state: an empty probe batch
                d.now_us += (TIMEOUT_MS + 300) * 1000;
                d.loop_free_at_us = d.loop_free_at_us.max(d.now_us);
                return Some(Batch { events: Ok(vec![]), flush_us: d.now_us, probe: true });
            }
        }
    }
}

fn check_against_fresh(d: &mut Driver, state: &State) {
    let w = d.world();
    let inc = cx::view_of_db(&state.db);
    if std::env::var("SIM_DEBUG").is_ok() {
        let map = state.db.get_iso_literal_map();
        eprintln!("  watch-mode literal map: {:?}", map.untracked().0.keys().map(|k| k.to_string()).collect::<Vec<_>>());
    }
    let (fresh, fresh_could_not_start) = cx::fresh_view_checked(&w);
    if fresh_could_not_start {
        // Narrow relaxation: a batch compile of this tree cannot read its sources at all (the
        // generated histories reach this only through a binary file renamed to a source name).
        // There is no artifact / diagnostic set to compare with; only liveness is demanded.
        d.bump("quiescent_points_where_batch_cannot_start");
        return;
    }
    d.bump("quiescent_points_checked");
    d.log.extend_from_slice(&inc.hash().to_le_bytes());
    if inc != fresh {
        let detail = match (&inc, &fresh) {
            (View::Artifacts(a), View::Artifacts(b)) => {
                let only_inc: Vec<&String> = a.keys().filter(|k| !b.contains_key(*k)).take(3).collect();
                let only_fresh: Vec<&String> = b.keys().filter(|k| !a.contains_key(*k)).take(3).collect();
                let differ: Vec<&String> = a.iter().filter(|(k, v)| b.get(*k).map(|x| x != *v).unwrap_or(false)).map(|(k, _)| k).take(3).collect();
                format!("watch mode has {} artifacts, a fresh compile {}; only in watch mode {:?}; only in fresh {:?}; different content {:?}", a.len(), b.len(), only_inc, only_fresh, differ)
            }
            (View::Diagnostics(a), View::Diagnostics(b)) => {
                let only_inc: Vec<&String> = a.iter().filter(|x| !b.contains(x)).take(2).collect();
                let only_fresh: Vec<&String> = b.iter().filter(|x| !a.contains(x)).take(2).collect();
                format!("watch mode reports {} diagnostics, a fresh compile {}; only in watch mode: {:?}; only in fresh: {:?}; same set in another order: {}", a.len(), b.len(), only_inc, only_fresh, only_inc.is_empty() && only_fresh.is_empty())
            }
            _ => format!("watch mode: {}; fresh compile: {}", inc.summary(), fresh.summary()),
        };
        let step = d.next_step;
        d.violations.push(Violation { property: "C20", kind: "differs-from-fresh-compile", detail, step });
        return;
    }
    if let View::Artifacts(artifacts) = &inc {
        let tree = world::snapshot(&d.config.artifact_directory.absolute_path);
        if let Some(diff) = world::describe_diff(&tree, artifacts) {
            let step = d.next_step;
            if d.fault_since_clean_probe {
                d.violations.push(Violation { property: "C19", kind: "not-repaired-after-interrupted-write", detail: format!("at the quiescent point of watch mode that follows a failed write phase (and a successful recompile): {diff}"), step });
            } else {
                d.violations.push(Violation { property: "C20", kind: "artifact-directory-differs", detail: format!("at a quiescent point of watch mode: {diff}"), step });
                d.violations.push(Violation { property: "C18", kind: "directory-differs-from-artifacts", detail: format!("at a quiescent point of watch mode (no fault injected): {diff}"), step });
            }
        } else if d.fault_since_clean_probe {
            d.bump("recovered_after_fault");
        }
        d.fault_since_clean_probe = false;
    }
}

pub fn run(case: &WatchCase, tag: u64) -> Outcome {
    let w = World::create(tag);
    cx::clear_hooks();
    cx::install_sorted_enumeration();
    // records the writer's operations and marks them in the libc call log (faults of the
    // system-call seam are addressed relative to an operation)
    let _fs_record = cx::install_fs_hook(w.artifact_dir(), None);
    pico::verif_hooks::set_capacity_override(std::num::NonZeroUsize::new(case.capacity.max(1)));
    for d in [0usize, 1, 2, 3, 6, 7] {
        let _ = std::fs::create_dir_all(w.abs(DIRS[d]));
    }
    for (p, s) in &case.initial {
        w.apply(&EdOp::Write(*p, *s));
    }
    let (config, cwd) = cx::config_for(&w);
    let (tx, rx) = tokio::sync::mpsc::channel::<WatchBatch>(64);
    let driver = Rc::new(RefCell::new(Driver::new(&w, config.clone(), case.steps.clone(), case.compile_ms.clone(), Some(tx))));

    // feed: decide the next batch and put it on the channel (or close the channel)
    fn feed(d: &mut Driver) {
        match next_for_loop(d) {
            Some(b) => {
                d.in_flight_probe = b.probe;
                d.in_flight_flush_us = b.flush_us;
                if d.gc_requested {
                    verif_hooks::set_gc_due(true);
                    d.gc_requested = false;
                    d.bump("fault.gc");
                }
                if !b.probe && d.pending_sys.is_some() && crate::sysfault::available() {
                    // the window stays open while the loop processes this batch
                    let dir = d.config.artifact_directory.absolute_path.clone();
                    crate::sysfault::arm(&dir, d.pending_sys.take());
                    d.sys_armed = true;
                }
                let restarts_watcher = matches!(&b.events, Ok(evs) if isograph_compiler::watch::has_config_changes(evs));
                if restarts_watcher {
                    // the loop will build a new compiler state and ask for a new watcher: the
                    // simulator hands it a new receiver and keeps the sending side; the new
                    // watcher categorises with the configuration as it is on disk now
                    let (tx2, rx2) = tokio::sync::mpsc::channel::<WatchBatch>(64);
                    verif_hooks::inject_watch_receiver(rx2);
                    if let Some(tx) = &d.sender {
                        tx.try_send(b.events).unwrap_or_else(|_| panic!("harness: channel full"));
                    }
                    d.sender = Some(tx2);
                    let old_artifact_dir = d.config.artifact_directory.absolute_path.clone();
                    d.config = cx::config_for(&d.world()).0;
                    if d.config.artifact_directory.absolute_path != old_artifact_dir {
                        // the configured artifact directory moved: "as the previous iteration
                        // left it" now refers to the new place
                        d.last_tree = Some(world::snapshot(&d.config.artifact_directory.absolute_path));
                        d.bump("probe.config_change_moves_artifact_directory");
                    }
                    // The old watcher is stopped: what its debouncer still held, and the batches
                    // it had flushed but the loop had not taken yet, are lost; the new compiler
                    // state scans the tree as it is now, and the new watcher starts empty.
                    let mut debouncer = DebounceDataInner::new(NoCache, Duration::from_millis(TIMEOUT_MS));
                    debouncer.roots = vec![
                        (d.config.config_location.clone(), RecursiveMode::NonRecursive),
                        (d.config.project_root.clone(), RecursiveMode::Recursive),
                        (d.config.schema.absolute_path.clone(), RecursiveMode::NonRecursive),
                    ];
                    d.debouncer = debouncer;
                    let dropped = d.ready.len() as u64;
                    d.ready.clear();
                    *d.counters.entry("batches_lost_with_the_stopped_watcher".into()).or_insert(0) += dropped;
                    d.last_rename_us = None;
                    d.bump("probe.config_change_restarts_compiler_state");
                } else if let Some(tx) = &d.sender {
                    tx.try_send(b.events).unwrap_or_else(|_| panic!("harness: channel full"));
                }
            }
            None => {
                d.sender = None; // recv() yields None, the loop ends with Ok(())
            }
        }
    }

    verif_hooks::inject_watch_receiver(rx);
    let d2 = driver.clone();
    verif_hooks::set_after_watch_iteration(Some(Box::new(move |any_state| {
        let state: &mut State = any_state.downcast_mut::<State>().expect("harness: state type");
        let mut d = d2.borrow_mut();
        let mut write_phase_faulted = false;
        if d.sys_armed {
            let rec = crate::sysfault::disarm();
            d.sys_armed = false;
            write_phase_faulted = rec.fired;
            if rec.fired {
                d.fault_since_clean_probe = true;
                d.bump("fault.sys_fault_in_watch_mode_write_phase");
                let k = format!("probe.sys_fault_hit_{}", rec.fired_what);
                d.bump(&k);
            } else {
                d.bump("sys_faults_not_reached");
            }
        }
        // C17 in watch mode: an iteration whose compile reports diagnostics leaves the artifact
        // directory as the previous iteration left it
        {
            let tree = world::snapshot(&d.config.artifact_directory.absolute_path);
            // "failed" is what the user was told ("Error when compiling."), or what the database
            // says; a write phase that met an injected fault is C19's business, not C17's
            let (errors_reported, _successes_reported) = crate::reported::take_reported();
            let failed = !write_phase_faulted && (errors_reported > 0 || matches!(cx::view_of_db(&state.db), View::Diagnostics(_)));
            if errors_reported > 0 {
                d.bump("iterations_that_reported_an_error");
            }
            if failed {
                if let Some(before) = d.last_tree.clone() {
                    if before != tree {
                        let step = d.next_step;
                        d.violations.push(Violation { property: "C17", kind: "failed-compile-changed-artifacts", detail: format!("a watch-mode recompile reported diagnostics and the artifact directory changed: {} files before, {} after", before.files.len(), tree.files.len()), step });
                    } else {
                        d.bump("failed_recompiles_checked_untouched");
                    }
                }
            }
            d.last_tree = Some(tree);
        }
        d.batches_processed += 1;
        let k = d.batches_processed as usize;
        let dur = d.compile_ms[k % d.compile_ms.len()] as u64 * 1000;
        d.loop_free_at_us += dur;
        if d.in_flight_probe {
            check_against_fresh(&mut d, state);
        } else {
            d.bump("batches_processed");
        }
        feed(&mut d);
    })));
    // the first batch must be on the channel before the loop first awaits: the injection point
    // is reached after the initial compile; we pre-load from here (nothing else can run in between)
    // (an empty probe batch, so that no editor step is applied before the loop has done its
    // initial scan and compile; the probe also checks the initial state against a fresh compile)
    {
        let mut d = driver.borrow_mut();
        d.in_flight_probe = true;
        d.sender.as_ref().unwrap().try_send(Ok(vec![])).expect("harness: channel");
    }

    let rt =tokio::runtime::Builder::new_current_thread().enable_all().build().expect("runtime");
    // what the loop tells its user about each compile (tracing events of print_result)
    let _listening = tracing::subscriber::set_default(crate::reported::OutcomeListener);
    let _ = crate::reported::take_reported();
    let result = rt.block_on(isograph_compiler::handle_watch_command::<Profile>(config, cwd));
    drop(rt);
    verif_hooks::set_after_watch_iteration(None);
    let mut d = driver.borrow_mut();
    if d.sys_armed {
        let _ = crate::sysfault::disarm();
        d.sys_armed = false;
    }
    let finished = d.sender.is_none();
    match result {
        Ok(()) if finished => {}
        Ok(()) => {
            let step = d.next_step;
            d.violations.push(Violation { property: "C20", kind: "watcher-stopped", detail: "the watch loop returned before the history ended".into(), step });
        }
        Err(errs) => {
            let step = d.next_step;
            let msg = errs.iter().map(|e| e.to_string()).collect::<Vec<_>>().join("; ");
            let msg = format!("{msg} (after {} processed batches)", d.batches_processed);
            d.violations.push(Violation { property: "C20", kind: "watcher-stopped", detail: format!("the watch loop ended with an error: {msg}"), step });
        }
    }
    let processed = d.counters.get("batches_processed").copied().unwrap_or(0);
    let stale = d.stale_categorisation;
    *d.counters.entry("probe.batch_categorised_before_later_edit".into()).or_insert(0) += stale;
    if d.folder_event_seen {
        d.bump("probe.folder_level_event");
    }
    let out = Outcome {
        violations: std::mem::take(&mut d.violations),
        counters: d.counters.clone().into_iter().collect(),
        log: d.log.clone(),
        nontrivial: processed >= 2 && (d.folder_event_seen || stale > 0),
        sim_time_ms: d.now_us / 1000,
    };
    drop(d);
    cx::clear_hooks();
    let _ = std::env::set_current_dir("/");
    w.destroy();
    out
}

// ---------------------------------------------------------------------------
// generation
// ---------------------------------------------------------------------------

pub fn generate(seed: u64) -> WatchCase {
    let mut rng = Rng::new(seed);
    let capacity = *rng.pick(&[1usize, 2, 4, 16, 10_000]);
    let mut initial = Vec::new();
    if !rng.chance(1, 5) {
        for _ in 0..rng.range(1, 4) {
            initial.push((*rng.pick(&[0usize, 1, 2, 4, 5, 6, 7, 8, 15, 16, 17]), *rng.pick(&[0usize, 2, 3, 4, 5, 6, 7, 12, 13, 11])));
        }
    }
    let compile_ms: Vec<u16> = (0..3).map(|_| *rng.pick(&[0u16, 0, 5, 40, 150, 300, 300])).collect();
    // swarm: which op kinds are enabled in this run
    let mut w: [u32; 10] = [12, 4, 3, 2, 2, 2, 2, 1, 5, 2];
    for (i, x) in w.iter_mut().enumerate() {
        if i != 0 && rng.chance(1, 4) {
            *x = 0;
        }
    }
    let non_source = rng.chance(1, 2);
    let atomic_saves = rng.chance(1, 2);
    // Environment boundary: the configuration branch of the loop builds a new compiler state
    // with `?`; while the tree holds a source file that cannot be read (non-UTF-8) that ends
    // the watcher. Configuration edits are not among the changes C20 lists, so histories that
    // edit the configuration never hold such a file (binary contents keep non-source names).
    let config_edits = rng.chance(1, 3);
    let n = rng.range(3, 22);
    let mut steps = Vec::new();
    for _ in 0..n {
        let after_ms = *rng.pick(&[0u16, 1, 3, 10, 30, 60, 90, 120, 200, 400]);
        let path = if non_source && rng.chance(1, 4) { if config_edits { *rng.pick(&[9usize, 10, 12, 13, 14, 19]) } else { *rng.pick(&[9usize, 10, 11, 12, 13, 14, 18, 18, 19]) } } else { *rng.pick(&[0usize, 1, 2, 3, 4, 5, 6, 7, 8, 15, 16, 17]) };
        let step = match rng.weighted(&w) {
            0 if atomic_saves && rng.chance(1, 3) => WStep::Edit { op: EdOp::AtomicSave(path, crate::session::gen_snippet(&mut rng)), after_ms },
            0 => WStep::Edit { op: EdOp::Write(path, crate::session::gen_snippet(&mut rng)), after_ms },
            1 => WStep::Edit { op: EdOp::Delete(path), after_ms },
            2 => WStep::Edit { op: EdOp::Rename(path, *rng.pick(&[0usize, 1, 2, 3, 4, 5, 6, 7, 8, 15, 9, 14, 16, 17])), after_ms },
            3 => WStep::Edit { op: EdOp::MkDir(rng.below(DIRS.len() as u64) as usize), after_ms },
            4 => WStep::Edit { op: EdOp::RmDirAll(rng.below(DIRS.len() as u64) as usize), after_ms },
            5 => WStep::Edit { op: EdOp::RenameDir(rng.below(DIRS.len() as u64) as usize, rng.below(DIRS.len() as u64) as usize), after_ms },
            6 => WStep::Edit {
                op: match rng.below(8) {
                    0 | 1 | 2 | 3 => EdOp::WriteSchema(*rng.pick(&[0usize, 0, 0, 1, 1, 2, 3])),
                    4 | 5 => EdOp::WriteExt(*rng.pick(&[0usize, 0, 1, 1, 2])),
                    _ if config_edits => EdOp::WriteConfig(rng.below(64) as u8),
                    _ => EdOp::WriteSchema(0),
                },
                after_ms,
            },
            7 => WStep::Gc,
            9 => {
                use crate::sysfault::{SysFault, SysKind};
                let kind = *rng.pick(&[SysKind::Err(libc::EIO), SysKind::Err(libc::ENOSPC), SysKind::Err(libc::EACCES), SysKind::ErrAfter(libc::EIO), SysKind::Torn(libc::ENOSPC), SysKind::Full]);
                WStep::FaultNextWrite(SysFault { at: *rng.pick(&[0u32, 0, 1, 1, 2, 3, 5, 9, 17]), kind, op: Some(*rng.pick(&[0u32, 0, 0, 1, 1, 2, 3, 5, 8])) })
            }
            _ => WStep::Settle,
        };
        // an edit is often followed closely by a rename of the same file (save, then "rename
        // symbol / move file"): the modification may not have been processed yet
        let follow_up = match &step {
            WStep::Edit { op: EdOp::Write(p, _), .. } if rng.chance(1, 5) => Some(WStep::Edit {
                op: EdOp::Rename(*p, *rng.pick(&[0usize, 1, 2, 3, 4, 5, 6, 7, 8, 15, 16, 17])),
                after_ms: *rng.pick(&[0u16, 10, 60, 120, 150, 200, 400]),
            }),
            _ => None,
        };
        steps.push(step);
        steps.extend(follow_up);
    }
    WatchCase { capacity, initial, compile_ms, steps }
}

// ---------------------------------------------------------------------------
// calibration of the event stub against the real watcher (development aid; needs real time)
// ---------------------------------------------------------------------------

/// For each scenario the same editor operations are performed (a) on a real tree watched
/// by the REAL notify-debouncer-full 0.4 over the real inotify backend, with real sleeps, and
/// (b) through the kernel->notify stub and the vendored debouncer queue under simulated time.
/// The delivered events (Access events dropped, paths relative to the project) must agree.
/// Returns (scenarios that agree, scenarios compared, report lines).
pub fn calibrate() -> (usize, usize, Vec<String>) {
    use notify_debouncer_full::new_debouncer;
    type Sc = (&'static str, Vec<EdOp>, Vec<(EdOp, u64)>);
    let scenarios: Vec<Sc> = vec![
        ("write new file", vec![], vec![(EdOp::Write(0, 5), 0)]),
        ("overwrite existing file", vec![EdOp::Write(0, 5)], vec![(EdOp::Write(0, 0), 0)]),
        ("two overwrites within the window", vec![EdOp::Write(0, 5)], vec![(EdOp::Write(0, 0), 0), (EdOp::Write(0, 2), 10)]),
        ("write empty new file", vec![], vec![(EdOp::Write(1, 14), 0)]),
        ("create then delete within the window", vec![], vec![(EdOp::Write(1, 5), 0), (EdOp::Delete(1), 10)]),
        ("delete file", vec![EdOp::Write(0, 5)], vec![(EdOp::Delete(0), 0)]),
        ("delete then re-create within the window", vec![EdOp::Write(0, 5)], vec![(EdOp::Delete(0), 0), (EdOp::Write(0, 5), 10)]),
        ("rename file in the same folder", vec![EdOp::Write(0, 5)], vec![(EdOp::Rename(0, 1), 0)]),
        ("rename file to another folder", vec![EdOp::Write(0, 5)], vec![(EdOp::Rename(0, 2), 0)]),
        ("modify then rename within the window", vec![EdOp::Write(0, 5)], vec![(EdOp::Write(0, 0), 0), (EdOp::Rename(0, 1), 10)]),
        ("mkdir", vec![], vec![(EdOp::MkDir(5), 0)]),
        ("rename folder with files", vec![EdOp::Write(0, 5), EdOp::Write(1, 3)], vec![(EdOp::RenameDir(0, 5), 0)]),
        ("rm -r folder with files", vec![EdOp::Write(0, 5), EdOp::Write(1, 3), EdOp::Write(3, 0)], vec![(EdOp::RmDirAll(0), 0)]),
        ("schema written in place", vec![], vec![(EdOp::WriteSchema(1), 0)]),
        ("rename, window passes, delete", vec![EdOp::Write(0, 5)], vec![(EdOp::Rename(0, 1), 0), (EdOp::Delete(1), 300)]),
        ("BOUNDARY rename then delete within the window", vec![EdOp::Write(0, 5)], vec![(EdOp::Rename(0, 1), 0), (EdOp::Delete(1), 10)]),
        ("write non-source file", vec![], vec![(EdOp::Write(9, 5), 0)]),
        ("atomic save over an existing file", vec![EdOp::Write(0, 5)], vec![(EdOp::AtomicSave(0, 2), 0)]),
        ("atomic save of a new file", vec![], vec![(EdOp::AtomicSave(0, 2), 0)]),
        ("overwrite then atomic save within the window", vec![EdOp::Write(0, 5)], vec![(EdOp::Write(0, 0), 0), (EdOp::AtomicSave(0, 2), 10)]),
    ];
    let mut report = Vec::new();
    let mut agree = 0;
    let total = scenarios.len();
    for (i, (name, setup, ops)) in scenarios.into_iter().enumerate() {
        // ---- real watcher ----
        let w = World::create(0xca11b000 + i as u64);
        for d in [0usize, 1, 2, 3] {
            let _ = std::fs::create_dir_all(w.abs(DIRS[d]));
        }
        for op in &setup {
            w.apply(op);
        }
        let (config, _cwd) = cx::config_for(&w);
        let (tx, rx) = std::sync::mpsc::channel();
        let mut deb = new_debouncer(Duration::from_millis(TIMEOUT_MS), None, tx).expect("debouncer");
        deb.watch(&config.config_location, RecursiveMode::NonRecursive).expect("watch");
        deb.watch(&config.project_root, RecursiveMode::Recursive).expect("watch");
        deb.watch(&config.schema.absolute_path, RecursiveMode::NonRecursive).expect("watch");
        std::thread::sleep(Duration::from_millis(150));
        for (op, gap) in &ops {
            std::thread::sleep(Duration::from_millis(*gap));
            w.apply(op);
        }
        std::thread::sleep(Duration::from_millis(600));
        let mut real: Vec<(String, Vec<String>)> = Vec::new();
        while let Ok(res) = rx.try_recv() {
            if let Ok(events) = res {
                for e in events {
                    if !matches!(e.event.kind, EventKind::Access(_)) {
                        real.push((format!("{:?}", e.event.kind), e.event.paths.iter().map(|p| p.strip_prefix(&w.root).unwrap_or(p).to_string_lossy().to_string()).collect()));
                    }
                }
            }
        }
        drop(deb);
        let _ = std::env::set_current_dir("/");
        w.destroy();
        // ---- stub + vendored queue ----
        let w2 = World::create(0xca11b000 + i as u64);
        for d in [0usize, 1, 2, 3] {
            let _ = std::fs::create_dir_all(w2.abs(DIRS[d]));
        }
        for op in &setup {
            w2.apply(op);
        }
        let (config2, _cwd) = cx::config_for(&w2);
        let mut d = Driver::new(&w2, config2, vec![], vec![0], None);
        // the calibration compares what the editor really did: the model's own waiting rules
        // (after mkdir, after rename) are part of the generator, not of the stub
        for (op, gap) in &ops {
            let t = d.now_us + gap * 1000;
            d.wait_until(t);
            d.last_rename_us = None;
            d.mkdir_at.clear();
            d.do_edit(op);
        }
        let t = d.now_us + 600_000;
        d.wait_until(t);
        let model = d.debounced_log.clone();
        let _ = std::env::set_current_dir("/");
        w2.destroy();
        let ok = real == model;
        if ok {
            agree += 1;
        }
        report.push(format!("{} {name}: real={real:?} model={model:?}", if ok { "AGREE  " } else { "DIFFER " }));
    }
    (agree, total, report)
}
