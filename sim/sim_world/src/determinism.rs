//! Scenario `determinism` (C14): one project state compiled in several fresh processes
//! that differ only in sources of nondeterminism the simulator owns: the process hash seed
//! (LD_PRELOAD getrandom seam), the directory enumeration order (seam H7) and the order in
//! which strings are interned (a seeded pre-interning of the project's identifiers before
//! the compiler starts, which permutes the numeric order of intern ids). All
//! configurations must produce byte-identical artifacts and identical diagnostics.

use crate::cx::{self, View};
use crate::session::Violation;
use crate::world::{EdOp, World, DIRS};
use intern::string_key::Intern;
use isograph_compiler::verif_hooks;
use serde::{Deserialize, Serialize};
use simcore::Rng;
use std::path::{Path, PathBuf};

#[derive(Serialize, Deserialize, Clone, Debug, PartialEq, Eq, Hash)]
pub struct DetConfig {
    pub hash_seed: u64,
    /// 0 = sorted enumeration; otherwise the seed of the permutation applied at seam H7
    pub perm_seed: u64,
    /// 0 = nothing; otherwise identifiers of the project are interned in this seeded order
    /// before the compiler runs
    pub preintern_seed: u64,
}

#[derive(Serialize, Deserialize, Clone, Debug, PartialEq, Eq, Hash)]
pub enum Project {
    /// files from the pool: (path index, snippet index), schema variant, extension variant
    Pool { files: Vec<(usize, usize)>, schema: usize, ext: usize },
    /// a checked-in demo project, copied to scratch
    Demo(String),
}

#[derive(Serialize, Deserialize, Clone, Debug, PartialEq, Eq, Hash)]
pub struct DetCase {
    pub project: Project,
    /// compiler options of a pool project (bit set): 1 persisted documents, 2 CommonJS module,
    /// 4 file extensions in imports, 8 a generated-file header, 16 persisted documents with md5
    /// and extra info
    #[serde(default)]
    pub options: u8,
    /// kept under "steps" so that the generic minimiser can drop configurations
    pub steps: Vec<DetConfig>,
}

pub struct Outcome {
    pub violations: Vec<Violation>,
    pub counters: Vec<(String, u64)>,
    pub log: Vec<u8>,
    pub nontrivial: bool,
    pub configurations: u64,
}

fn shim_path() -> PathBuf {
    simcore::evidence::verif_root().join("preload").join("getrandom_shim.so")
}

/// Environment of every sim_world worker / child: deterministic hash seeds when the shim is built.
pub fn worker_env() -> Vec<(String, String)> {
    let p = shim_path();
    if p.is_file() {
        vec![("LD_PRELOAD".into(), p.to_string_lossy().to_string()), ("VERIF_HASH_SEED".into(), "0".into())]
    } else {
        vec![]
    }
}

fn copy_tree(from: &Path, to: &Path) {
    let _ = std::fs::create_dir_all(to);
    let mut entries: Vec<_> = std::fs::read_dir(from).into_iter().flatten().flatten().collect();
    entries.sort_by_key(|e| e.path());
    for e in entries {
        let name = e.file_name();
        let n = name.to_string_lossy();
        if n == "node_modules" || n == "__isograph" || n == ".next" || n == "dist" {
            continue;
        }
        let p = e.path();
        if p.is_dir() {
            copy_tree(&p, &to.join(&name));
        } else {
            let _ = std::fs::copy(&p, to.join(&name));
        }
    }
}

fn materialise(project: &Project, options: u8, tag: u64) -> World {
    match project {
        Project::Pool { files, schema, ext } => {
            let w = World::create(tag);
            if options != 0 {
                std::fs::write(w.abs("isograph.config.json"), crate::world::config_json(options)).expect("harness: config");
            }
            for d in [0usize, 1, 2, 3] {
                let _ = std::fs::create_dir_all(w.abs(DIRS[d]));
            }
            for (p, s) in files {
                w.apply(&EdOp::Write(*p, *s));
            }
            w.apply(&EdOp::WriteSchema(*schema));
            w.apply(&EdOp::WriteExt(*ext));
            w
        }
        Project::Demo(name) => {
            let w = World::create(tag);
            let _ = std::fs::remove_dir_all(&w.root);
            copy_tree(&Path::new("/repo/demos").join(name), &w.root);
            w
        }
    }
}

/// Identifier-like words of the project's sources and schema, deduplicated and sorted.
fn identifiers(root: &Path) -> Vec<String> {
    let mut words = std::collections::BTreeSet::new();
    fn walk(dir: &Path, words: &mut std::collections::BTreeSet<String>, depth: usize) {
        if depth > 8 {
            return;
        }
        let mut entries: Vec<_> = std::fs::read_dir(dir).into_iter().flatten().flatten().map(|e| e.path()).collect();
        entries.sort();
        for p in entries {
            if p.is_dir() {
                if !p.ends_with("__isograph") && !p.ends_with("node_modules") {
                    walk(&p, words, depth + 1);
                }
            } else if let Ok(text) = std::fs::read_to_string(&p) {
                if text.len() > 400_000 {
                    continue;
                }
                let mut cur = String::new();
                for ch in text.chars() {
                    if ch.is_alphanumeric() || ch == '_' {
                        cur.push(ch);
                    } else if !cur.is_empty() {
                        if cur.len() <= 40 && words.len() < 6000 {
                            words.insert(std::mem::take(&mut cur));
                        } else {
                            cur.clear();
                        }
                    }
                }
            }
        }
    }
    walk(root, &mut words, 0);
    words.into_iter().collect()
}

/// Entry point of a child process: compile the tree at --root under one configuration and
/// print the canonical view as JSON.
pub fn child_main(args: &[String]) {
    let get = |name: &str| args.iter().position(|a| a == name).and_then(|i| args.get(i + 1).cloned());
    let root = PathBuf::from(get("--root").unwrap_or_default());
    let perm_seed: u64 = get("--perm").and_then(|s| s.parse().ok()).unwrap_or(0);
    let preintern_seed: u64 = get("--preintern").and_then(|s| s.parse().ok()).unwrap_or(0);
    let w = World { root };
    cx::clear_hooks();
    if preintern_seed != 0 {
        let mut words = identifiers(&w.root);
        Rng::new(preintern_seed).shuffle(&mut words);
        for word in &words {
            let _ = word.as_str().intern();
        }
    }
    if perm_seed == 0 {
        cx::install_sorted_enumeration();
    } else {
        verif_hooks::set_order_paths_hook(Some(Box::new(move |paths| {
            paths.sort();
            Rng::new(perm_seed).shuffle(paths);
        })));
    }
    let view = cx::fresh_view(&w);
    let out = match &view {
        View::Artifacts(m) => serde_json::json!({"kind": "artifacts", "hash": format!("{:016x}", view.hash()),
            "files": m.iter().map(|(k, v)| (k.clone(), format!("{:016x}", simcore::fnv1a(v)))).collect::<std::collections::BTreeMap<_, _>>() }),
        View::Diagnostics(d) => serde_json::json!({"kind": "diagnostics", "hash": format!("{:016x}", view.hash()), "diagnostics": d}),
    };
    println!("{}", out);
}

fn run_child(w: &World, c: &DetConfig) -> Result<serde_json::Value, String> {
    let exe = std::env::current_exe().unwrap();
    let mut cmd = std::process::Command::new(exe);
    cmd.arg("det-child")
        .arg("--root")
        .arg(&w.root)
        .arg("--perm")
        .arg(c.perm_seed.to_string())
        .arg("--preintern")
        .arg(c.preintern_seed.to_string())
        .stdin(std::process::Stdio::null())
        .stderr(std::process::Stdio::null());
    let shim = shim_path();
    if shim.is_file() {
        cmd.env("LD_PRELOAD", &shim).env("VERIF_HASH_SEED", c.hash_seed.to_string());
    }
    let out = cmd.output().map_err(|e| format!("spawn: {e}"))?;
    if !out.status.success() {
        return Err(format!("compile process ended with {}", out.status));
    }
    let text = String::from_utf8_lossy(&out.stdout);
    serde_json::from_str(text.lines().last().unwrap_or("")).map_err(|e| format!("bad child output: {e}"))
}

pub fn run(case: &DetCase, tag: u64) -> Outcome {
    let w = materialise(&case.project, case.options, tag);
    let mut out = Outcome { violations: vec![], counters: vec![], log: vec![], nontrivial: false, configurations: 0 };
    let mut first: Option<(usize, serde_json::Value)> = None;
    let mut c: std::collections::BTreeMap<String, u64> = Default::default();
    for (i, cfg) in case.steps.iter().enumerate() {
        out.configurations += 1;
        if cfg.hash_seed != 0 {
            *c.entry("fault.hash_seed_varied".into()).or_insert(0) += 1;
        }
        if cfg.perm_seed != 0 {
            *c.entry("fault.enumeration_order_permuted".into()).or_insert(0) += 1;
        }
        if cfg.preintern_seed != 0 {
            *c.entry("fault.interning_order_permuted".into()).or_insert(0) += 1;
        }
        match run_child(&w, cfg) {
            Err(e) => {
                out.violations.push(Violation { property: "C14", kind: "compile-process-died", detail: format!("configuration #{i} {cfg:?}: {e}"), step: i });
                break;
            }
            Ok(v) => {
                out.log.extend_from_slice(v["hash"].as_str().unwrap_or("").as_bytes());
                if i == 0 {
                    out.nontrivial = v["kind"] == "artifacts" || v["diagnostics"].as_array().map(|a| a.len() >= 2).unwrap_or(false);
                }
                match &first {
                    None => first = Some((i, v)),
                    Some((j, v0)) => {
                        if v0["hash"] != v["hash"] {
                            let detail = if v0["kind"] != v["kind"] {
                                format!("configuration #{j} produced {} and configuration #{i} {cfg:?} produced {}", v0["kind"], v["kind"])
                            } else if v["kind"] == "artifacts" {
                                let a = v0["files"].as_object().cloned().unwrap_or_default();
                                let b = v["files"].as_object().cloned().unwrap_or_default();
                                let differ: Vec<&String> = a.iter().filter(|(k, h)| b.get(*k) != Some(h)).map(|(k, _)| k).chain(b.keys().filter(|k| !a.contains_key(*k))).take(4).collect();
                                format!("artifacts differ between configuration #{j} and #{i} {cfg:?}: {differ:?}")
                            } else {
                                let a: Vec<String> = v0["diagnostics"].as_array().map(|x| x.iter().map(|s| s.as_str().unwrap_or("").lines().take(2).collect::<Vec<_>>().join(" | ")).collect()).unwrap_or_default();
                                let b: Vec<String> = v["diagnostics"].as_array().map(|x| x.iter().map(|s| s.as_str().unwrap_or("").lines().take(2).collect::<Vec<_>>().join(" | ")).collect()).unwrap_or_default();
                                format!("diagnostics differ between configuration #{j} and #{i} {cfg:?}: {a:?} vs {b:?}")
                            };
                            out.violations.push(Violation { property: "C14", kind: "output-depends-on-configuration", detail, step: i });
                            break;
                        }
                    }
                }
            }
        }
    }
    let _ = std::env::set_current_dir("/");
    w.destroy();
    out.counters = c.into_iter().collect();
    out
}

/// the checked-in demos that are isograph projects (disposable-state-ajax-demo has no config)
pub const DEMOS: [&str; 3] = ["pet-demo", "github-demo", "vite-demo"];

pub fn generate(seed: u64) -> DetCase {
    let mut rng = Rng::new(seed);
    let project = if rng.chance(1, 12) {
        Project::Demo(rng.pick(&DEMOS).to_string())
    } else {
        let n = rng.range(2, 7);
        let files = (0..n)
            .map(|_| (*rng.pick(&[0usize, 1, 2, 3, 4, 5, 6, 7, 8, 15]), crate::session::gen_snippet(&mut rng)))
            .collect();
        Project::Pool { files, schema: *rng.pick(&[0usize, 0, 0, 1, 1, 2, 3]), ext: *rng.pick(&[0usize, 0, 1, 2, 3]) }
    };
    let k = rng.range(4, 6);
    let mut steps = vec![DetConfig { hash_seed: 0, perm_seed: 0, preintern_seed: 0 }];
    for _ in 1..k {
        steps.push(DetConfig {
            hash_seed: if rng.chance(3, 4) { rng.range(1, 1 << 40) } else { 0 },
            perm_seed: if rng.chance(2, 3) { rng.range(1, 1 << 40) } else { 0 },
            preintern_seed: if rng.chance(2, 3) { rng.range(1, 1 << 40) } else { 0 },
        });
    }
    let options = if rng.chance(1, 2) { 0 } else { rng.below(32) as u8 };
    DetCase { project, options, steps }
}
