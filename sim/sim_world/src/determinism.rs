//! placeholder (scenario not built yet)
use crate::session::Violation;
use serde::{Deserialize, Serialize};

#[derive(Serialize, Deserialize, Clone, Debug)]
pub struct DetCase {
    pub steps: Vec<u8>,
}
pub struct Outcome {
    pub violations: Vec<Violation>,
    pub counters: Vec<(String, u64)>,
    pub log: Vec<u8>,
    pub nontrivial: bool,
    pub configurations: u64,
}
pub fn generate(_seed: u64) -> DetCase {
    DetCase { steps: vec![] }
}
pub fn run(_case: &DetCase, _tag: u64) -> Outcome {
    Outcome { violations: vec![], counters: vec![], log: vec![], nontrivial: false, configurations: 0 }
}
pub fn worker_env() -> Vec<(String, String)> {
    vec![]
}
pub fn child_main(_args: &[String]) {}
