//! Scenario `fsplan` (C18): the artifact planner and writer on synthetic artifact sets.
//! Arbitrary sequences of artifact sets (root files, nested files, entities / selectables /
//! files added and removed, equal and changed contents, the empty set) are applied with
//! the real `get_file_system_operations` + `apply_file_system_operations` to a real
//! directory with seeded prior contents, interleaved with "restart" (belief forgotten).

use crate::cx;
use crate::session::Violation;
use crate::world::{self, World};
use artifact_content::FileSystemState;
use common_lang_types::{ArtifactPath, ArtifactPathAndContent, EntityNameAndSelectableName};
use intern::string_key::Intern;
use isograph_compiler::verif_hooks;
use serde::{Deserialize, Serialize};
use simcore::Rng;
use std::collections::BTreeMap;

const ENTITIES: [&str; 3] = ["Query", "User", "Pet"];
const SELECTABLES: [&str; 3] = ["Home", "Avatar", "Card"];
const FILES: [&str; 3] = ["resolver_reader.ts", "param_type.ts", "entrypoint.ts"];
const ROOT_FILES: [&str; 3] = ["iso.ts", "tsconfig.json", "extra.ts"];
/// every name this scenario interns (pre-interned in a fixed order by the worker's warm-up)
pub const VOCABULARY: [&str; 12] = ["Query", "User", "Pet", "Home", "Avatar", "Card", "resolver_reader.ts", "param_type.ts", "entrypoint.ts", "iso.ts", "tsconfig.json", "extra.ts"];

/// (entity, selectable, file) indices, or (255, 255, root file index); value = content version
pub type ArtifactSet = BTreeMap<(u8, u8, u8), u8>;

#[derive(Serialize, Deserialize, Clone, Debug, PartialEq, Eq, Hash)]
pub enum PlanStep {
    /// compile producing this artifact set: list of ((entity, selectable, file), version)
    Apply(Vec<((u8, u8, u8), u8)>),
    /// forget the belief (new process); optionally write stray content first
    Restart(Vec<u8>),
}

#[derive(Serialize, Deserialize, Clone, Debug, PartialEq, Eq, Hash)]
pub struct PlanCase {
    pub steps: Vec<PlanStep>,
}

fn rel_of(k: &(u8, u8, u8)) -> String {
    if k.0 == 255 {
        ROOT_FILES[k.2 as usize % 3].to_string()
    } else {
        format!("{}/{}/{}", ENTITIES[k.0 as usize % 3], SELECTABLES[k.1 as usize % 3], FILES[k.2 as usize % 3])
    }
}

fn to_artifacts(set: &[((u8, u8, u8), u8)]) -> Vec<ArtifactPathAndContent> {
    let dedup: ArtifactSet = set.iter().cloned().collect();
    dedup
        .iter()
        .map(|(k, v)| ArtifactPathAndContent {
            file_content: format!("// {} version {}\n", rel_of(k), v).into(),
            artifact_path: ArtifactPath {
                type_and_field: if k.0 == 255 {
                    None
                } else {
                    Some(EntityNameAndSelectableName {
                        parent_entity_name: ENTITIES[k.0 as usize % 3].intern().into(),
                        selectable_name: SELECTABLES[k.1 as usize % 3].intern().into(),
                    })
                },
                file_name: if k.0 == 255 { ROOT_FILES[k.2 as usize % 3].intern().into() } else { FILES[k.2 as usize % 3].intern().into() },
            },
        })
        .collect()
}

pub struct PlanOutcome {
    pub violations: Vec<Violation>,
    pub counters: Vec<(String, u64)>,
    pub log: Vec<u8>,
    pub applies: u64,
    pub nontrivial: bool,
}

pub fn run(case: &PlanCase, tag: u64) -> PlanOutcome {
    let w = World::create(tag);
    cx::clear_hooks();
    let dir = w.artifact_dir();
    std::fs::create_dir_all(&dir).ok(); // create_config does this in the real flow
    let mut belief: Option<FileSystemState> = None;
    let mut out = PlanOutcome { violations: vec![], counters: vec![], log: vec![], applies: 0, nontrivial: false };
    let mut c: BTreeMap<String, u64> = BTreeMap::new();
    let mut session_applies = 0;
    let mut saw_delete_dir = false;
    let mut saw_delete_file = false;
    for (idx, step) in case.steps.iter().enumerate() {
        match step {
            PlanStep::Restart(garbage) => {
                belief = None;
                session_applies = 0;
                std::fs::create_dir_all(&dir).ok();
                for g in garbage {
                    match g % 4 {
                        0 => {
                            let _ = std::fs::write(dir.join(format!("stray{g}.ts")), b"x");
                        }
                        1 => {
                            let d = dir.join("Query").join(format!("Stray{g}"));
                            let _ = std::fs::create_dir_all(&d);
                            let _ = std::fs::write(d.join("x.ts"), b"x");
                        }
                        2 => {
                            let _ = std::fs::create_dir_all(dir.join(format!("emptydir{g}")));
                        }
                        _ => {
                            let p = dir.join("User");
                            if !p.exists() {
                                let _ = std::fs::write(p, b"file, not dir");
                            }
                        }
                    }
                    *c.entry("fault.prior_garbage_in_artifact_dir".into()).or_insert(0) += 1;
                }
                *c.entry("fault.process_restart".into()).or_insert(0) += 1;
            }
            PlanStep::Apply(set) => {
                let artifacts = to_artifacts(set);
                let want = cx::artifact_map(&artifacts);
                let before = world::snapshot(&dir);
                let rec = cx::install_fs_hook(dir.clone(), None);
                let ops = verif_hooks::get_file_system_operations(&artifacts, &dir, &mut belief);
                let res = verif_hooks::apply_file_system_operations(&ops, &artifacts);
                verif_hooks::set_fs_fault_hook(None);
                let rec = rec.borrow().clone();
                out.applies += 1;
                out.log.push(ops.len() as u8);
                saw_delete_dir |= rec.ops.iter().any(|o| o.starts_with("DeleteDirectory(") && o != "DeleteDirectory()");
                saw_delete_file |= rec.ops.iter().any(|o| o.starts_with("DeleteFile("));
                match res {
                    Err(e) => {
                        out.violations.push(Violation { property: "C18", kind: "unfaulted-write-phase-failed", detail: format!("applying {} operations for {} artifacts failed: {e}", ops.len(), artifacts.len()), step: idx });
                        belief = None;
                    }
                    Ok(_) => {
                        let tree = world::snapshot(&dir);
                        if let Some(diff) = world::describe_diff(&tree, &want) {
                            out.violations.push(Violation { property: "C18", kind: "directory-differs-from-artifacts", detail: format!("after a successful apply: {diff}"), step: idx });
                        }
                        if session_applies >= 1 {
                            for p in &rec.written {
                                if before.files.get(p) == want.get(p) && before.files.contains_key(p) {
                                    out.violations.push(Violation { property: "C18", kind: "rewrote-unchanged-artifact", detail: format!("{p} was written although its content did not change"), step: idx });
                                    break;
                                }
                            }
                        }
                        session_applies += 1;
                    }
                }
            }
        }
    }
    out.nontrivial = saw_delete_dir && saw_delete_file;
    if saw_delete_dir {
        *c.entry("probe.diff_delete_directory".into()).or_insert(0) += 1;
    }
    if saw_delete_file {
        *c.entry("probe.diff_delete_file".into()).or_insert(0) += 1;
    }
    let _ = std::env::set_current_dir("/");
    w.destroy();
    out.counters = c.into_iter().collect();
    out
}

fn gen_set(rng: &mut Rng) -> Vec<((u8, u8, u8), u8)> {
    let mut set = Vec::new();
    match rng.below(8) {
        0 => return set, // the empty set
        1 => {
            // root files only (a project without client fields)
            for f in 0..3u8 {
                if rng.chance(2, 3) {
                    set.push(((255, 255, f), rng.below(2) as u8));
                }
            }
            return set;
        }
        _ => {}
    }
    for e in 0..3u8 {
        if !rng.chance(2, 3) {
            continue;
        }
        for s in 0..3u8 {
            if !rng.chance(1, 2) {
                continue;
            }
            for f in 0..3u8 {
                if rng.chance(2, 3) {
                    set.push(((e, s, f), rng.below(2) as u8));
                }
            }
        }
    }
    for f in 0..3u8 {
        if rng.chance(2, 3) {
            set.push(((255, 255, f), rng.below(2) as u8));
        }
    }
    set
}

pub fn generate(seed: u64) -> PlanCase {
    let mut rng = Rng::new(seed);
    let mut steps = Vec::new();
    if rng.chance(1, 2) {
        steps.push(PlanStep::Restart((0..rng.below(4)).map(|_| rng.below(16) as u8).collect()));
    }
    let mut prev: Option<Vec<((u8, u8, u8), u8)>> = None;
    for _ in 0..rng.range(2, 8) {
        if rng.chance(1, 6) {
            steps.push(PlanStep::Restart((0..rng.below(3)).map(|_| rng.below(16) as u8).collect()));
        }
        // mostly small mutations of the previous set, sometimes a fresh one
        let set = match (&prev, rng.below(3)) {
            (Some(p), 0) | (Some(p), 1) => {
                let mut s = p.clone();
                for _ in 0..rng.range(1, 3) {
                    match rng.below(3) {
                        0 if !s.is_empty() => {
                            let i = rng.below(s.len() as u64) as usize;
                            s.remove(i);
                        }
                        1 if !s.is_empty() => {
                            let i = rng.below(s.len() as u64) as usize;
                            s[i].1 ^= 1;
                        }
                        _ => {
                            let k = if rng.chance(1, 4) { (255, 255, rng.below(3) as u8) } else { (rng.below(3) as u8, rng.below(3) as u8, rng.below(3) as u8) };
                            if !s.iter().any(|(kk, _)| *kk == k) {
                                s.push((k, rng.below(2) as u8));
                            }
                        }
                    }
                }
                s
            }
            _ => gen_set(&mut rng),
        };
        prev = Some(set.clone());
        steps.push(PlanStep::Apply(set));
    }
    PlanCase { steps }
}
