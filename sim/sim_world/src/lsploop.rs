//! Scenario `lsploop` (C21): the language server's REAL main loop (`isograph_lsp::server::run`:
//! the `tokio::select!` over client messages, file-system batches and the debounce timer)
//! on a current-thread runtime with tokio's paused clock, next to a driver task.
//!
//! Seams: client messages arrive through an injected tokio receiver (hook H9; the bridge
//! thread of the shipped server is an OS thread whose timing nobody decides), file-system
//! batches through the injected watcher receiver (hook H5), answers and published diagnostics
//! come back over the in-memory `lsp_server::Connection`. Time is tokio's paused clock: it
//! only moves when every task is idle, so `sleep(1 ns)` in the driver means "until the server
//! has nothing left to do", and the 100 ms debounce fires exactly when the driver lets 100 ms
//! pass. Messages the driver enqueues without waiting in between are ready at the same time:
//! the order in which the loop takes them is `select!`'s own choice (its per-thread random
//! start index is seeded through the hash-seed seam).
//!
//! The history format and both oracles are those of scenario `lsp` (lsp.rs).

use crate::cx::{self, Profile};
use crate::lsp::{self, LStep, LspCase, Outcome, ReqKind};
use crate::session::{self, Violation};
use crate::world::{EdOp, World, DIRS, PATHS};
use isograph_compiler::verif_hooks::{self, WatchBatch};
use isograph_compiler::watch::SourceFileEvent;
use serde_json::{json, Value};
use std::collections::{BTreeMap, VecDeque};
use std::panic::{catch_unwind, AssertUnwindSafe};
use std::time::Duration;

struct Drive<'a> {
    w: &'a World,
    msg_tx: tokio::sync::mpsc::Sender<lsp_server::Message>,
    fs_tx: tokio::sync::mpsc::Sender<WatchBatch>,
    from_server: crossbeam::channel::Receiver<lsp_server::Message>,
    open: BTreeMap<usize, String>,
    pending_fs: VecDeque<Vec<SourceFileEvent>>,
    published: BTreeMap<String, Value>,
    responses: BTreeMap<i32, Value>,
    next_id: i32,
    gc_next: bool,
    c: BTreeMap<String, u64>,
    violations: Vec<Violation>,
    log: Vec<u8>,
    opened_after_first_diagnostics: bool,
    buffer_differs_from_disk: bool,
    diagnostics_published_once: bool,
    unquiesced_sends: u32,
}

impl Drive<'_> {
    fn bump(&mut self, k: &str) {
        *self.c.entry(k.to_string()).or_insert(0) += 1;
    }

    /// Everything the server has sent so far.
    fn collect(&mut self) {
        while let Ok(msg) = self.from_server.try_recv() {
            match msg {
                lsp_server::Message::Response(r) => {
                    let id: i32 = r.id.to_string().trim_matches('"').parse().unwrap_or(-1);
                    self.responses.insert(id, json!({"result": r.result, "error": r.error.map(|e| json!({"code": e.code, "message": e.message}))}));
                }
                lsp_server::Message::Notification(n) if n.method == "textDocument/publishDiagnostics" => {
                    self.diagnostics_published_once = true;
                    let uri = n.params["uri"].as_str().unwrap_or("").to_string();
                    let diags = n.params["diagnostics"].clone();
                    if diags.as_array().map(|a| a.is_empty()).unwrap_or(true) {
                        self.published.remove(&uri);
                    } else {
                        self.published.insert(uri, diags);
                    }
                }
                _ => {}
            }
        }
    }

    /// Until the server has nothing left to do (the paused clock moves only when all tasks idle).
    async fn quiesce(&mut self) {
        if self.unquiesced_sends >= 2 {
            self.bump("probe.several_messages_ready_at_once");
        }
        self.unquiesced_sends = 0;
        tokio::time::sleep(Duration::from_nanos(1)).await;
        self.collect();
    }

    fn server_gone(&self) -> bool {
        self.msg_tx.is_closed()
    }

    async fn notify(&mut self, n: lsp_server::Notification) {
        let _ = self.msg_tx.send(lsp_server::Message::Notification(n)).await;
        self.unquiesced_sends += 1;
        self.bump("arm.client_notification");
    }

    async fn deliver_one(&mut self) {
        if let Some(batch) = self.pending_fs.pop_front() {
            if self.gc_next {
                verif_hooks::set_gc_due(true);
                self.gc_next = false;
                self.bump("fault.gc");
            }
            let _ = self.fs_tx.send(Ok(batch)).await;
            self.unquiesced_sends += 1;
            self.bump("arm.fs_batch");
        }
    }
}

async fn drive(d: &mut Drive<'_>, steps: &[LStep]) {
    for (idx, step) in steps.iter().enumerate() {
        if d.server_gone() {
            d.bump("histories_cut_short_server_ended");
            break;
        }
        d.log.push(idx as u8);
        match step {
            LStep::DidOpen(p, s) | LStep::DidChange(p, s) => {
                let p = *p % PATHS.len();
                let text = String::from_utf8_lossy(&World::content_for(p, *s)).to_string();
                let n = if matches!(step, LStep::DidOpen(..)) || !d.open.contains_key(&p) { lsp::did_open(d.w, p, &text) } else { lsp::did_change(d.w, p, &text) };
                if d.diagnostics_published_once && !d.open.contains_key(&p) {
                    d.opened_after_first_diagnostics = true;
                }
                if std::fs::read(d.w.abs(PATHS[p].rel)).ok().map(|x| x != text.as_bytes()).unwrap_or(true) {
                    d.buffer_differs_from_disk = true;
                }
                d.open.insert(p, text);
                d.notify(n).await;
            }
            LStep::DidClose(p) => {
                let p = *p % PATHS.len();
                if d.open.remove(&p).is_some() {
                    let n = lsp::did_close(d.w, p);
                    d.notify(n).await;
                }
            }
            LStep::Disk(op) => {
                if session::allowed_in_session(op) && d.w.apply(op) {
                    let ev = lsp::session_event(d.w, op);
                    if !ev.is_empty() {
                        d.pending_fs.push_back(ev);
                    }
                    d.bump("disk_edits");
                }
            }
            LStep::DeliverFs => d.deliver_one().await,
            LStep::Gc => d.gc_next = true,
            LStep::Timer => {
                // time passes: whatever is queued and the debounce timer (if its deadline is
                // reached) are ready together
                tokio::time::sleep(Duration::from_millis(150)).await;
                d.collect();
                d.bump("arm.time_passes");
            }
            LStep::Request(kind, p, seed) => {
                if !d.pending_fs.is_empty() {
                    d.bump("requests_skipped_fs_batch_in_flight");
                    continue;
                }
                if d.open.is_empty() {
                    d.bump("requests_skipped_no_document_open");
                    continue;
                }
                let p = *d.open.keys().nth(*p % d.open.len()).unwrap();
                if !d.w.abs(PATHS[p].rel).is_file() {
                    // panics in any server (see lsp.rs); it would end this server
                    d.bump("requests_skipped_buffer_without_file");
                    continue;
                }
                d.quiesce().await;
                if d.server_gone() {
                    continue;
                }
                let text = d.open.get(&p).cloned().unwrap_or_default();
                let pos = lsp::position_in(&text, *seed);
                let uri = lsp::uri_of(d.w, p);
                let mut req = lsp::request(kind, &uri, pos);
                d.next_id += 1;
                let id = d.next_id;
                req.id = id.into();
                let _ = d.msg_tx.send(lsp_server::Message::Request(req)).await;
                d.bump("arm.client_request");
                d.quiesce().await;
                let Some(got) = d.responses.remove(&id) else {
                    d.bump("requests_without_answer");
                    continue;
                };
                d.bump("requests_compared");
                d.log.extend_from_slice(&simcore::fnv1a(got.to_string().as_bytes()).to_le_bytes());
                let open = d.open.clone();
                let want = lsp::with_fresh(d.w, &open, |fresh, _| lsp::ask(fresh, lsp::request(kind, &uri, pos)));
                let describe = |kind: &ReqKind, g: &Value, w: &Value, which: &str| {
                    let (g, w) = (g.to_string(), w.to_string());
                    format!("{kind:?} on {} at {pos:?}: real server loop {} ; {which} {}", PATHS[p].rel, &g[..g.len().min(300)], &w[..w.len().min(300)])
                };
                match want {
                    None => d.bump("fresh_server_could_not_start"),
                    Some(want) if want.get("panic").is_some() => d.bump("requests_panicking_in_fresh_server"),
                    Some(want) if got != want => {
                        let detail = describe(kind, &got, &want, "fresh server");
                        d.violations.push(Violation { property: "C21", kind: "answer-differs-from-fresh-server", detail, step: idx });
                    }
                    Some(_) => {
                        if let Some(eff) = lsp::with_effective(d.w, &open, |fresh, _| lsp::ask(fresh, lsp::request(kind, &uri, pos))) {
                            d.bump("requests_compared_with_effective_contents");
                            if got != eff {
                                let detail = describe(kind, &got, &eff, "fresh server on the effective contents");
                                d.violations.push(Violation { property: "C21", kind: "answer-differs-from-server-on-effective-contents", detail, step: idx });
                            }
                        }
                    }
                }
            }
            LStep::Settle => {
                while !d.pending_fs.is_empty() {
                    d.deliver_one().await;
                }
                d.quiesce().await;
                // the debounce timer (re-armed by every notification and batch) fires
                tokio::time::sleep(Duration::from_millis(250)).await;
                d.collect();
                if d.server_gone() {
                    continue;
                }
                d.bump("quiescent_points_checked");
                d.log.extend_from_slice(&simcore::fnv1a(format!("{:?}", d.published).as_bytes()).to_le_bytes());
                let open = d.open.clone();
                let published = d.published.clone();
                let mut compare = |d: &mut Drive<'_>, want: BTreeMap<String, Value>, kind: &'static str, which: &str| {
                    if want != published {
                        let only_server: Vec<&String> = published.keys().filter(|k| !want.contains_key(*k)).collect();
                        let only_fresh: Vec<&String> = want.keys().filter(|k| !published.contains_key(*k)).collect();
                        let differ: Vec<&String> = published.iter().filter(|(k, v)| want.get(*k).map(|x| x != *v).unwrap_or(false)).map(|(k, _)| k).collect();
                        d.violations.push(Violation { property: "C21", kind, detail: format!("effective diagnostics of the real server loop differ from {which}: only on the running server {only_server:?}; only there {only_fresh:?}; different {differ:?}"), step: idx });
                    }
                };
                match lsp::with_fresh(d.w, &open, |_, fresh| fresh.diagnostics.clone()) {
                    Some(want) => compare(d, want, "diagnostics-differ-from-fresh-server", "a fresh server"),
                    None => d.bump("fresh_server_could_not_start"),
                }
                if d.violations.is_empty() {
                    if let Some(eff) = lsp::with_effective(d.w, &open, |_, fresh| fresh.diagnostics.clone()) {
                        d.bump("quiescent_points_checked_with_effective_contents");
                        compare(d, eff, "diagnostics-differ-from-server-on-effective-contents", "a fresh server on the effective contents");
                    }
                }
            }
        }
        if !d.violations.is_empty() {
            break;
        }
    }
}

fn silence_server_chatter() {
    use std::sync::Once;
    static ONCE: Once = Once::new();
    ONCE.call_once(|| {
        if std::env::var("SIM_DEBUG").is_err() {
            // the server narrates every message on stderr
            unsafe {
                let fd = libc::open(b"/dev/null\0".as_ptr() as *const libc::c_char, libc::O_WRONLY);
                if fd >= 0 {
                    libc::dup2(fd, 2);
                    libc::close(fd);
                }
            }
        }
    });
}

pub fn run(case: &LspCase, tag: u64) -> Outcome {
    silence_server_chatter();
    let w = World::create(tag);
    cx::clear_hooks();
    cx::install_sorted_enumeration();
    pico::verif_hooks::set_capacity_override(std::num::NonZeroUsize::new(case.capacity.max(1)));
    for d in [0usize, 1, 2, 3, 6] {
        let _ = std::fs::create_dir_all(w.abs(DIRS[d]));
    }
    for (p, s) in &case.initial {
        w.apply(&EdOp::Write(*p, *s));
    }
    let mut out = Outcome { violations: vec![], counters: vec![], log: vec![], nontrivial: false, sim_time_ms: 0 };
    let (config, cwd) = cx::config_for(&w);
    let (msg_tx, msg_rx) = tokio::sync::mpsc::channel::<lsp_server::Message>(512);
    let (fs_tx, fs_rx) = tokio::sync::mpsc::channel::<WatchBatch>(128);
    isograph_lsp::verif_exports::inject_lsp_message_receiver(msg_rx);
    verif_hooks::inject_watch_receiver(fs_rx);
    let (server_side, client_side) = lsp_server::Connection::memory();
    let mut d = Drive {
        w: &w,
        msg_tx,
        fs_tx,
        from_server: client_side.receiver.clone(),
        open: BTreeMap::new(),
        pending_fs: VecDeque::new(),
        published: BTreeMap::new(),
        responses: BTreeMap::new(),
        next_id: 0,
        gc_next: false,
        c: BTreeMap::new(),
        violations: vec![],
        log: vec![],
        opened_after_first_diagnostics: false,
        buffer_differs_from_disk: false,
        diagnostics_published_once: false,
        unquiesced_sends: 0,
    };
    let rt = tokio::runtime::Builder::new_current_thread().enable_all().start_paused(true).build().expect("runtime");
    let start = tokio::time::Instant::now();
    let steps = case.steps.clone();
    let ended = catch_unwind(AssertUnwindSafe(|| {
        rt.block_on(async {
            let server = isograph_lsp::server::run::<Profile>(server_side, config, lsp_types::InitializeParams::default(), cwd);
            let driver = async {
                drive(&mut d, &steps).await;
                // closing both channels ends the loop
                let Drive { msg_tx, fs_tx, .. } = &mut d;
                let (a, b) = (tokio::sync::mpsc::channel(1).0, tokio::sync::mpsc::channel(1).0);
                drop(std::mem::replace(msg_tx, a));
                drop(std::mem::replace(fs_tx, b));
            };
            let (result, ()) = tokio::join!(server, driver);
            result.is_ok()
        })
    }));
    let _ = start;
    drop(rt);
    drop(client_side);
    match ended {
        Ok(true) => d.bump("server_loop_ended_normally"),
        Ok(false) => d.bump("server_loop_ended_with_error"),
        Err(_) => d.bump("server_loop_panicked"),
    }
    if d.opened_after_first_diagnostics {
        d.bump("probe.buffer_opened_after_first_diagnostics");
    }
    if d.buffer_differs_from_disk {
        d.bump("probe.buffer_differs_from_disk");
    }
    out.nontrivial = d.opened_after_first_diagnostics || d.buffer_differs_from_disk;
    out.violations = std::mem::take(&mut d.violations);
    out.log = std::mem::take(&mut d.log);
    out.counters = std::mem::take(&mut d.c).into_iter().collect();
    drop(d);
    cx::clear_hooks();
    let _ = std::env::set_current_dir("/");
    w.destroy();
    out
}
