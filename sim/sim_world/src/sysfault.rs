//! System-call level fault seam (preload/fsfault_shim.c): the harness opens a window around
//! one compile in which every libc file-system call below the artifact directory is
//! numbered, logged and — for call number `at` — decided by the simulator. Outside the
//! window the library is a pass-through, so the harness's own snapshots are undisturbed.

use serde::{Deserialize, Serialize};
use std::ffi::CString;
use std::os::raw::{c_char, c_int, c_long};

#[derive(Serialize, Deserialize, Clone, Copy, Debug, PartialEq, Eq, Hash)]
pub enum SysKind {
    /// the call is not performed; fails with the errno
    Err(i32),
    /// the call is performed, then reported as failed
    ErrAfter(i32),
    /// process kill at this call: nothing reaches the disk from here on
    Freeze,
    /// write(): half written, rest fails with the errno (other calls: Err)
    Torn(i32),
    /// write(): half written, then process kill
    TornFreeze,
    /// benign: every write() transfers at most n bytes
    Short(u16),
    /// benign: open/write fails once with EINTR (std retries)
    Eintr,
    /// full disk from this call on: every write() fails with ENOSPC
    Full,
}

#[derive(Serialize, Deserialize, Clone, Copy, Debug, PartialEq, Eq, Hash)]
pub struct SysFault {
    /// index of the libc call the fault hits: counted from the start of the compile, or, when
    /// `op` is set, from the first call of that file-system operation of the writer
    pub at: u32,
    pub kind: SysKind,
    #[serde(default, skip_serializing_if = "Option::is_none")]
    pub op: Option<u32>,
}

thread_local! {
    static PENDING: std::cell::Cell<Option<SysFault>> = const { std::cell::Cell::new(None) };
    /// operations of each kind marked so far in the open window
    static KIND_COUNTS: std::cell::Cell<[u32; 5]> = const { std::cell::Cell::new([0; 5]) };
}

pub const FAILING_KINDS: [SysKind; 9] = [
    SysKind::Err(libc::EIO),
    SysKind::Err(libc::EACCES),
    SysKind::Err(libc::ENOSPC),
    SysKind::ErrAfter(libc::EIO),
    SysKind::Freeze,
    SysKind::Torn(libc::ENOSPC),
    SysKind::Torn(libc::EIO),
    SysKind::TornFreeze,
    SysKind::Full,
];

impl SysKind {
    pub fn name(&self) -> &'static str {
        match self {
            SysKind::Err(e) if *e == libc::EACCES => "sys_err_eacces",
            SysKind::Err(e) if *e == libc::ENOSPC => "sys_err_enospc",
            SysKind::Err(_) => "sys_err_eio",
            SysKind::ErrAfter(_) => "sys_applied_then_error",
            SysKind::Freeze => "sys_kill_at_syscall",
            SysKind::Torn(_) => "sys_torn_write",
            SysKind::TornFreeze => "sys_kill_mid_write",
            SysKind::Short(_) => "sys_short_writes",
            SysKind::Eintr => "sys_eintr",
            SysKind::Full => "sys_disk_full",
        }
    }
    /// the process does not survive this fault (the harness discards its memory)
    pub fn is_kill(&self) -> bool {
        matches!(self, SysKind::Freeze | SysKind::TornFreeze)
    }
    /// legal behaviour of the operating system that must not make a compile fail
    pub fn is_benign(&self) -> bool {
        matches!(self, SysKind::Short(_) | SysKind::Eintr)
    }
    fn encode(&self) -> (c_int, c_int, c_int) {
        match *self {
            SysKind::Err(e) => (1, e, 0),
            SysKind::ErrAfter(e) => (2, e, 0),
            SysKind::Freeze => (3, libc::EIO, 0),
            SysKind::Torn(e) => (4, e, 0),
            SysKind::TornFreeze => (5, libc::EIO, 0),
            SysKind::Short(n) => (6, 0, n.max(1) as c_int),
            SysKind::Eintr => (7, libc::EINTR, 0),
            SysKind::Full => (8, libc::ENOSPC, 0),
        }
    }
}

type ArmFn = unsafe extern "C" fn(*const c_char, c_long, c_int, c_int, c_int);
type DisarmFn = unsafe extern "C" fn(*mut c_long);
type TextFn = unsafe extern "C" fn(*mut c_char, usize) -> usize;
type MarkFn = unsafe extern "C" fn(c_long, *const c_char);
type SetRelFn = unsafe extern "C" fn(c_long, c_int, c_int, c_int);

struct Api {
    arm: ArmFn,
    disarm: DisarmFn,
    log: TextFn,
    fired_what: TextFn,
    mark: MarkFn,
    set_relative: SetRelFn,
}

fn sym(name: &str) -> *mut libc::c_void {
    let c = CString::new(name).unwrap();
    unsafe { libc::dlsym(libc::RTLD_DEFAULT, c.as_ptr()) }
}

fn api() -> Option<&'static Api> {
    use std::sync::OnceLock;
    static API: OnceLock<Option<Api>> = OnceLock::new();
    API.get_or_init(|| {
        let (a, d, l, f, m, r) = (sym("verif_fsfault_arm"), sym("verif_fsfault_disarm"), sym("verif_fsfault_log"), sym("verif_fsfault_fired_what"), sym("verif_fsfault_mark"), sym("verif_fsfault_set_relative"));
        if a.is_null() || d.is_null() || l.is_null() || f.is_null() || m.is_null() || r.is_null() {
            return None;
        }
        unsafe {
            Some(Api {
                arm: std::mem::transmute::<*mut libc::c_void, ArmFn>(a),
                disarm: std::mem::transmute::<*mut libc::c_void, DisarmFn>(d),
                log: std::mem::transmute::<*mut libc::c_void, TextFn>(l),
                fired_what: std::mem::transmute::<*mut libc::c_void, TextFn>(f),
                mark: std::mem::transmute::<*mut libc::c_void, MarkFn>(m),
                set_relative: std::mem::transmute::<*mut libc::c_void, SetRelFn>(r),
            })
        }
    })
    .as_ref()
}

/// Restarts the deterministic byte stream behind libc `getrandom` (first half of the preload
/// library): a thread started afterwards draws the same std `RandomState` keys every time.
pub fn reseed_hash_stream(seed: u64) {
    let p = sym("verif_reseed");
    if !p.is_null() {
        let f = unsafe { std::mem::transmute::<*mut libc::c_void, unsafe extern "C" fn(u64)>(p) };
        unsafe { f(seed) };
    }
}

pub fn available() -> bool {
    api().is_some()
}

/// What the seam saw during one window.
#[derive(Default, Debug, Clone)]
pub struct SysRecord {
    pub calls: u64,
    pub fired: bool,
    pub mutating: u64,
    pub observing: u64,
    pub failed_by_shim: u64,
    pub loghash: u64,
    /// mutating calls that the operating system itself refused (nothing injected)
    pub real_failures: u64,
    /// libc entry point the fault hit ("write", "unlinkat", ...)
    pub fired_what: String,
    pub log: String,
}

/// Opens the window. `fault == None` only numbers and logs the calls.
pub fn arm(artifact_dir: &std::path::Path, fault: Option<SysFault>) {
    let Some(api) = api() else {
        simcore::harness_error("the preload library with the file-system seam is not loaded (LD_PRELOAD=preload/getrandom_shim.so)");
    };
    let dir = CString::new(artifact_dir.to_str().expect("utf8 path")).unwrap();
    PENDING.with(|p| p.set(None));
    KIND_COUNTS.with(|c| c.set([0; 5]));
    let (at, (k, e, p)) = match fault {
        Some(f) if f.op.is_some() => {
            // decided when the writer reaches that operation (see `mark`)
            PENDING.with(|p| p.set(Some(f)));
            (-1, (0, 0, 0))
        }
        Some(f) => (f.at as c_long, f.kind.encode()),
        None => (-1, (0, 0, 0)),
    };
    unsafe { (api.arm)(dir.as_ptr(), at, k, e, p) };
}

/// Closes the window and returns what happened inside.
pub fn disarm() -> SysRecord {
    let Some(api) = api() else { return SysRecord::default() };
    PENDING.with(|p| p.set(None));
    let mut out = [0 as c_long; 8];
    unsafe { (api.disarm)(out.as_mut_ptr()) };
    let mut buf = vec![0u8; 32768];
    let n = unsafe { (api.log)(buf.as_mut_ptr() as *mut c_char, buf.len()) };
    let log = String::from_utf8_lossy(&buf[..n]).to_string();
    let n = unsafe { (api.fired_what)(buf.as_mut_ptr() as *mut c_char, buf.len()) };
    let fired_what = String::from_utf8_lossy(&buf[..n]).to_string();
    SysRecord { calls: out[0] as u64, fired: out[1] != 0, mutating: out[2] as u64, observing: out[3] as u64, failed_by_shim: out[4] as u64, loghash: out[5] as u64, real_failures: out[7] as u64, fired_what, log }
}

/// Annotates the call log with the file-system operation the writer is about to perform.
pub fn mark(op_index: usize, text: &str) {
    if let Some(api) = api() {
        if let Ok(c) = CString::new(text) {
            unsafe { (api.mark)(op_index as c_long, c.as_ptr()) };
        }
        if let Some(f) = PENDING.with(|p| p.get()) {
            // `op` below 1000: the index of the operation; 1000*k + n: the n-th operation of kind
            // k (1 DeleteFile, 2 DeleteDirectory, 3 CreateDirectory, 4 WriteFile) of this compile
            let kind = match text.split('(').next().unwrap_or("") {
                "DeleteFile" => 1usize,
                "DeleteDirectory" => 2,
                "CreateDirectory" => 3,
                "WriteFile" => 4,
                _ => 0,
            };
            let nth = KIND_COUNTS.with(|c| {
                let mut c = c.get();
                let n = c[kind];
                c[kind] += 1;
                KIND_COUNTS.with(|cc| cc.set(c));
                n
            });
            if f.op == Some(op_index as u32) || (kind != 0 && f.op == Some((1000 * kind) as u32 + nth)) {
                PENDING.with(|p| p.set(None));
                let (k, e, p) = f.kind.encode();
                unsafe { (api.set_relative)(f.at as c_long, k, e, p) };
            }
        }
    }
}
