//! The simulated project: a real directory tree on tmpfs, a fixed pool of file
//! contents (valid and invalid iso literals over one fixed schema), and the
//! editor operations that mutate the tree. The pool is fixed data: this engine
//! searches histories and faults, not the input space of the compiler.

use serde::{Deserialize, Serialize};
use std::path::{Path, PathBuf};

pub const SCHEMA_VARIANTS: [&str; 4] = [
    // 0: base
    "type Query {\n  me: User!\n  pets: [Pet!]!\n  pet(id: ID!): Pet\n  node(id: ID!): Node\n}\ninterface Node { id: ID! }\ntype User implements Node { id: ID! name: String! age: Int best: Pet }\ntype Pet implements Node { id: ID! name: String! owner: User tagline: String }\n",
    // 1: an extra field on Pet (changes generated types of fields selecting Pet? only if selected) and a renamed doc
    "type Query {\n  me: User!\n  pets: [Pet!]!\n  pet(id: ID!): Pet\n  node(id: ID!): Node\n}\ninterface Node { id: ID! }\ntype User implements Node { id: ID! name: String! age: Int best: Pet email: String }\ntype Pet implements Node { id: ID! name: String! owner: User tagline: String weight: Float }\n",
    // 2: `age` removed from User: snippets selecting `age` become invalid
    "type Query {\n  me: User!\n  pets: [Pet!]!\n  pet(id: ID!): Pet\n  node(id: ID!): Node\n}\ninterface Node { id: ID! }\ntype User implements Node { id: ID! name: String! best: Pet }\ntype Pet implements Node { id: ID! name: String! owner: User tagline: String }\n",
    // 3: syntax error
    "type Query {\n  me: User!\n  pets: [Pet!]!\n",
];

pub const EXT_VARIANTS: [&str; 4] = [
    "",
    "extend type Query\n  @exposeField(field: \"node.asPet\", as: \"custom_pet_refetch\")\n",
    "extend type Query @@@\n",
    // two types that each carry a malformed directive, with different error messages
    "extend type Query\n  @exposeField(field: 1)\nextend type Pet\n  @exposeField(feld: \"x\")\nextend type User\n  @exposeField(field: \"a\", as: 2)\n",
];

/// (name, content). `%` in a content is replaced by nothing; contents are complete files.
pub const SNIPPETS: [(&str, &str); 22] = [
    ("avatar", "import { iso } from '@iso';\nexport const Avatar = iso(`\n  field User.Avatar @component {\n    name\n    age\n  }\n`)(function AvatarComponent({ data }) { return null; });\n"),
    ("avatar2", "import { iso } from '@iso';\nexport const Avatar = iso(`\n  field User.Avatar @component {\n    name\n  }\n`)(function AvatarComponent({ data }) { return null; });\n"),
    ("home", "import { iso } from '@iso';\nexport const Home = iso(`\n  field Query.Home @component {\n    me {\n      name\n      Avatar\n    }\n    pets {\n      id\n      name\n    }\n  }\n`)(function HomeComponent({ data }) { return null; });\nconst e = iso(`entrypoint Query.Home`);\n"),
    ("card", "import { iso } from '@iso';\nexport const Card = iso(`\n  field Pet.Card @component {\n    name\n    tagline\n    owner {\n      name\n    }\n  }\n`)(function CardComponent({ data }) { return null; });\n"),
    ("petlist", "import { iso } from '@iso';\nexport const PetList = iso(`\n  field Query.PetList {\n    pets {\n      id\n      Card\n    }\n  }\n`)(({ data }) => data.pets);\nconst e = iso(`entrypoint Query.PetList`);\n"),
    ("solo", "import { iso } from '@iso';\nexport const Solo = iso(`\n  field Query.Solo @component {\n    me {\n      id\n      name\n    }\n  }\n`)(function SoloComponent({ data }) { return null; });\nconst e = iso(`entrypoint Query.Solo`);\n"),
    ("onepet", "import { iso } from '@iso';\nexport const OnePet = iso(`\n  field Query.OnePet($id: ID!) @component {\n    pet(id: $id) {\n      name\n    }\n  }\n`)(function OnePetComponent({ data }) { return null; });\nconst e = iso(`entrypoint Query.OnePet`);\n"),
    ("two", "import { iso } from '@iso';\nexport const A = iso(`\n  field User.First {\n    name\n  }\n`)(({ data }) => data.name);\nexport const B = iso(`\n  field User.Second {\n    id\n    First\n  }\n`)(({ data }) => data.id);\n"),
    ("bad_field", "import { iso } from '@iso';\nexport const Bad = iso(`\n  field User.Bad @component {\n    nope\n  }\n`)(function BadComponent({ data }) { return null; });\n"),
    ("parse_error", "import { iso } from '@iso';\nexport const Broken = iso(`\n  field User.Broken @component {\n    name\n`)(function BrokenComponent({ data }) { return null; });\n"),
    ("unused_var", "import { iso } from '@iso';\nexport const Unused = iso(`\n  field Query.Unused($id: ID!) @component {\n    me {\n      name\n    }\n  }\n`)(function UnusedComponent({ data }) { return null; });\n"),
    ("plain", "export const nothing = 1;\n"),
    ("best", "import { iso } from '@iso';\nexport const Best = iso(`\n  field User.Best @component {\n    best {\n      name\n      Card\n    }\n  }\n`)(function BestComponent({ data }) { return null; });\n"),
    ("refetch", "import { iso } from '@iso';\nexport const R = iso(`\n  field Query.Refetcher @component {\n    pet(id: 1) {\n      name\n      __refetch\n    }\n  }\n`)(function RComponent({ data }) { return null; });\nconst e = iso(`entrypoint Query.Refetcher`);\n"),
    ("empty", ""),
    ("bad_entry", "import { iso } from '@iso';\nconst e = iso(`entrypoint Query.Missing`);\n"),
    // the same client field (User.Avatar) selected @loadable here and plainly in `home`
    ("lazy", "import { iso } from '@iso';\nexport const Lazy = iso(`\n  field Query.Lazy @component {\n    me {\n      id\n      Avatar @loadable\n    }\n  }\n`)(function LazyComponent({ data }) { return null; });\nconst e = iso(`entrypoint Query.Lazy`);\n"),
    ("lazycard", "import { iso } from '@iso';\nexport const LazyCard = iso(`\n  field Query.LazyCard @component {\n    pets {\n      id\n      Card @loadable(lazyLoadArtifact: true)\n    }\n  }\n`)(function LazyCardComponent({ data }) { return null; });\nconst e = iso(`entrypoint Query.LazyCard`);\n"),
    // the field of `home` / `petlist` without its entrypoint, and an entrypoint on its own:
    // switching between them removes single files of a selectable that stays (DeleteFile)
    ("home_noentry", "import { iso } from '@iso';\nexport const Home = iso(`\n  field Query.Home @component {\n    me {\n      name\n      Avatar\n    }\n    pets {\n      id\n      name\n    }\n  }\n`)(function HomeComponent({ data }) { return null; });\n"),
    ("petlist_noentry", "import { iso } from '@iso';\nexport const PetList = iso(`\n  field Query.PetList {\n    pets {\n      id\n      Card\n    }\n  }\n`)(({ data }) => data.pets);\n"),
    ("entry_home", "import { iso } from '@iso';\nconst e = iso(`entrypoint Query.Home`);\n"),
    // several unused variables in one diagnostic (the order of the names inside one message)
    ("unused4", "import { iso } from '@iso';\nexport const Unused4 = iso(`\n  field Query.Unused4($first: ID!, $second: ID!, $third: ID!, $fourth: ID!) @component {\n    me {\n      name\n    }\n  }\n`)(function Unused4Component({ data }) { return null; });\n"),
];

/// Files of the world. `source` = has an extension the batch compiler reads.
#[derive(Clone, Copy)]
pub struct PathSpec {
    pub rel: &'static str,
    pub source: bool,
}

pub const PATHS: [PathSpec; 20] = [
    PathSpec { rel: "src/a/F1.tsx", source: true },
    PathSpec { rel: "src/a/F2.ts", source: true },
    PathSpec { rel: "src/ab/F3.tsx", source: true },
    PathSpec { rel: "src/a/b/F4.jsx", source: true },
    PathSpec { rel: "src/F5.js", source: true },
    PathSpec { rel: "src/x.ts", source: true },
    PathSpec { rel: "src/x.tsx", source: true },
    PathSpec { rel: "src/ab/F6.ts", source: true },
    PathSpec { rel: "src/c/F7.tsx", source: true },
    PathSpec { rel: "src/a/notes.md", source: false },
    PathSpec { rel: "src/ab/data.json", source: false },
    PathSpec { rel: "src/a/blob.bin", source: false },
    PathSpec { rel: "src/c/readme.txt", source: false },
    PathSpec { rel: "src/a/__isograph_like/G.ts", source: false },
    PathSpec { rel: "src/a/F1.tsx.bak", source: false },
    PathSpec { rel: "src/c/F8.ts", source: true },
    // a file and a folder that sort between `src/a` and `src/a/...` ('.' and '-' are below '/')
    PathSpec { rel: "src/a.ts", source: true },
    PathSpec { rel: "src/a-x/F9.ts", source: true },
    // a source-named file whose content is never valid UTF-8 (an editor saving garbage)
    PathSpec { rel: "src/c/Blob.ts", source: true },
    // a folder that is named like the artifact directory but is not it: a batch compile never
    // enters a folder called `__isograph`, so nothing inside it is a source
    PathSpec { rel: "src/c/__isograph/Old.ts", source: false },
];

pub const DIRS: [&str; 8] = ["src/a", "src/ab", "src/a/b", "src/c", "src/a/__isograph_like", "src/d", "src/a-x", "src/c/__isograph"];

pub const BINARY_BLOB: [u8; 12] = [0xff, 0xfe, 0x00, 0x80, 0xc3, 0x28, 0xa0, 0xa1, 0xe2, 0x28, 0xa1, 0x00];

#[derive(Serialize, Deserialize, Clone, Debug, PartialEq, Eq, Hash)]
pub enum EdOp {
    /// create or overwrite PATHS[p] with SNIPPETS[s] (non-source paths 11 / `blob.bin` get binary)
    Write(usize, usize),
    Delete(usize),
    /// rename file PATHS[a] -> PATHS[b]
    Rename(usize, usize),
    MkDir(usize),
    RmDirAll(usize),
    /// rename directory DIRS[a] -> DIRS[b]
    RenameDir(usize, usize),
    WriteSchema(usize),
    WriteExt(usize),
    /// "atomic save" of an editor: write `<PATHS[p]>.tmp~` next to the file, then rename it
    /// over PATHS[p] (which may or may not exist)
    AtomicSave(usize, usize),
    /// the project's configuration file is rewritten with this set of compiler options
    /// (`config_json`); the watcher reacts with a full restart of the compiler state
    WriteConfig(u8),
}

/// `isograph.config.json` of a simulated project; `options` is a bit set: 1 persisted
/// documents, 2 CommonJS module, 4 file extensions in imports, 8 a generated-file header,
/// 16 persisted documents with md5 and extra info.
pub fn config_json(options: u8) -> String {
    let mut opts = vec!["\"on_invalid_id_type\":\"error\"".to_string()];
    if options & 16 != 0 {
        opts.push("\"persisted_documents\": {\"algorithm\": \"md5\", \"include_extra_info\": true}".into());
    } else if options & 1 != 0 {
        opts.push("\"persisted_documents\": {}".into());
    }
    if options & 2 != 0 {
        opts.push("\"module\": \"commonjs\"".into());
    }
    if options & 4 != 0 {
        opts.push("\"include_file_extensions_in_import_statements\": true".into());
    }
    if options & 8 != 0 {
        opts.push("\"generated_file_header\": \"generated by the simulated project\"".into());
    }
    // 32: the artifact directory moves to a sibling at the same depth (`gen_b/__isograph`
    // instead of `src/__isograph`): generated relative imports stay byte-identical
    let moved = if options & 32 != 0 { "\"artifact_directory\": \"./gen_b\", " } else { "" };
    format!("{{ \"project_root\": \"./src\", {moved}\"schema\": \"./schema.graphql\", \"schema_extensions\": [\"./schema-ext.graphql\"], \"options\": {{{}}} }}\n", opts.join(", "))
}


pub struct World {
    pub root: PathBuf,
}

/// While set, worlds are created below a directory private to this process: the constant
/// warm-up histories run in every worker at the same time and must not share directories.
pub static WARM_UP_SCRATCH: std::sync::atomic::AtomicBool = std::sync::atomic::AtomicBool::new(false);

pub fn scratch_base() -> PathBuf {
    let base = scratch_root();
    if WARM_UP_SCRATCH.load(std::sync::atomic::Ordering::Relaxed) {
        base.join(format!("warm-{}", std::process::id()))
    } else {
        base
    }
}

fn scratch_root() -> PathBuf {
    if let Ok(p) = std::env::var("VERIF_SCRATCH") {
        return PathBuf::from(p);
    }
    let shm = Path::new("/dev/shm");
    if shm.is_dir() {
        shm.join("verif-world")
    } else {
        simcore::evidence::verif_root().join("target").join("scratch").join("world")
    }
}

impl World {
    /// Creates an empty project (config, schema variant 0, empty extension, src/) at a path
    /// derived from `tag`, so that a run and its replay see identical paths.
    pub fn create(tag: u64) -> World {
        let root = scratch_base().join(format!("{tag:016x}"));
        let _ = std::fs::remove_dir_all(&root);
        std::fs::create_dir_all(root.join("src")).expect("create world");
        let w = World { root };
        w.write_raw("isograph.config.json", b"{ \"project_root\": \"./src\", \"schema\": \"./schema.graphql\", \"schema_extensions\": [\"./schema-ext.graphql\"], \"options\": {\"on_invalid_id_type\":\"error\"} }\n");
        w.write_raw("schema.graphql", SCHEMA_VARIANTS[0].as_bytes());
        w.write_raw("schema-ext.graphql", EXT_VARIANTS[0].as_bytes());
        w
    }

    pub fn destroy(&self) {
        let _ = std::fs::remove_dir_all(&self.root);
    }

    pub fn abs(&self, rel: &str) -> PathBuf {
        self.root.join(rel)
    }

    pub fn artifact_dir(&self) -> PathBuf {
        self.root.join("src").join("__isograph")
    }

    pub fn write_raw(&self, rel: &str, bytes: &[u8]) {
        let p = self.abs(rel);
        if let Some(parent) = p.parent() {
            let _ = std::fs::create_dir_all(parent);
        }
        std::fs::write(&p, bytes).unwrap_or_else(|e| panic!("harness: write {p:?}: {e}"));
    }

    /// the temporary file an "atomic save" writes next to its target
    pub fn temp_path_for(target: &Path) -> PathBuf {
        let mut name = target.file_name().unwrap_or_default().to_os_string();
        name.push(".tmp~");
        target.with_file_name(name)
    }

    pub fn content_for(path_idx: usize, snippet_idx: usize) -> Vec<u8> {
        if PATHS[path_idx].rel.ends_with(".bin") || PATHS[path_idx].rel.ends_with("Blob.ts") {
            BINARY_BLOB.to_vec()
        } else {
            // indices >= 100 are the same snippets with two lines inserted on top (an unsaved edit
            // that shifts every later position)
            let body = SNIPPETS[(snippet_idx % 100) % SNIPPETS.len()].1.as_bytes();
            if snippet_idx >= 200 {
                // a reflow that keeps every byte offset after the first line: two spaces of the
                // import line become two newlines after it (same length; later text moves two
                // lines down and keeps its byte position)
                let text = String::from_utf8_lossy(body).to_string();
                text.replacen("import { iso } from '@iso';\n", "import {iso} from '@iso';\n\n\n", 1).into_bytes()
            } else if snippet_idx >= 100 {
                let mut v = b"// edited\n// in the editor\n".to_vec();
                v.extend_from_slice(body);
                v
            } else {
                body.to_vec()
            }
        }
    }

    /// Applies an editor operation. Returns false if the operation is not applicable in the
    /// current tree (skipped; e.g. deleting a file that does not exist).
    pub fn apply(&self, op: &EdOp) -> bool {
        match op {
            EdOp::Write(p, s) => {
                let p = *p % PATHS.len();
                let abs = self.abs(PATHS[p].rel);
                // the editor creates the directory in an earlier step (see MkDir); a write into
                // a missing directory is skipped so that every event mapping stays calibrated
                if !abs.parent().map(|d| d.is_dir()).unwrap_or(false) {
                    return false;
                }
                if abs.is_dir() {
                    return false;
                }
                std::fs::write(&abs, Self::content_for(p, *s)).expect("harness write");
                true
            }
            EdOp::Delete(p) => {
                let abs = self.abs(PATHS[*p % PATHS.len()].rel);
                if abs.is_file() {
                    std::fs::remove_file(&abs).expect("harness delete");
                    true
                } else {
                    false
                }
            }
            EdOp::Rename(a, b) => {
                let from = self.abs(PATHS[*a % PATHS.len()].rel);
                let to = self.abs(PATHS[*b % PATHS.len()].rel);
                if from == to || !from.is_file() || to.exists() || !to.parent().map(|d| d.is_dir()).unwrap_or(false) {
                    return false;
                }
                std::fs::rename(&from, &to).expect("harness rename");
                true
            }
            EdOp::MkDir(d) => {
                let abs = self.abs(DIRS[*d % DIRS.len()]);
                if abs.exists() || !abs.parent().map(|d| d.is_dir()).unwrap_or(false) {
                    return false;
                }
                std::fs::create_dir(&abs).expect("harness mkdir");
                true
            }
            EdOp::RmDirAll(d) => {
                let abs = self.abs(DIRS[*d % DIRS.len()]);
                if abs.is_dir() {
                    std::fs::remove_dir_all(&abs).expect("harness rmdir");
                    true
                } else {
                    false
                }
            }
            EdOp::RenameDir(a, b) => {
                let from = self.abs(DIRS[*a % DIRS.len()]);
                let to = self.abs(DIRS[*b % DIRS.len()]);
                if from == to
                    || !from.is_dir()
                    || to.exists()
                    || to.starts_with(&from)
                    || !to.parent().map(|d| d.is_dir()).unwrap_or(false)
                {
                    return false;
                }
                std::fs::rename(&from, &to).expect("harness rename dir");
                true
            }
            EdOp::AtomicSave(p, s) => {
                let p = *p % PATHS.len();
                let abs = self.abs(PATHS[p].rel);
                if !abs.parent().map(|d| d.is_dir()).unwrap_or(false) || abs.is_dir() {
                    return false;
                }
                let tmp = Self::temp_path_for(&abs);
                std::fs::write(&tmp, Self::content_for(p, *s)).expect("harness write temp");
                std::fs::rename(&tmp, &abs).expect("harness rename temp");
                true
            }
            EdOp::WriteSchema(v) => {
                self.write_raw("schema.graphql", SCHEMA_VARIANTS[*v % SCHEMA_VARIANTS.len()].as_bytes());
                true
            }
            EdOp::WriteExt(v) => {
                self.write_raw("schema-ext.graphql", EXT_VARIANTS[*v % EXT_VARIANTS.len()].as_bytes());
                true
            }
            EdOp::WriteConfig(options) => {
                self.write_raw("isograph.config.json", config_json(*options).as_bytes());
                true
            }
        }
    }
}

/// Snapshot of a directory: relative path -> bytes for files, plus the set of directories.
#[derive(Clone, Debug, PartialEq, Eq, Default)]
pub struct TreeSnapshot {
    pub files: std::collections::BTreeMap<String, Vec<u8>>,
    pub dirs: std::collections::BTreeSet<String>,
}

pub fn snapshot(dir: &Path) -> TreeSnapshot {
    let mut s = TreeSnapshot::default();
    fn walk(base: &Path, dir: &Path, s: &mut TreeSnapshot) {
        let Ok(rd) = std::fs::read_dir(dir) else { return };
        for e in rd.flatten() {
            let p = e.path();
            let rel = p.strip_prefix(base).unwrap().to_string_lossy().to_string();
            let ft = e.file_type();
            if ft.map(|t| t.is_dir()).unwrap_or(false) {
                s.dirs.insert(rel);
                walk(base, &p, s);
            } else {
                s.files.insert(rel, std::fs::read(&p).unwrap_or_default());
            }
        }
    }
    walk(dir, dir, &mut s);
    s
}

pub fn describe_diff(tree: &TreeSnapshot, want_files: &std::collections::BTreeMap<String, Vec<u8>>) -> Option<String> {
    for (p, c) in want_files {
        match tree.files.get(p) {
            None => return Some(format!("artifact {p} is missing from the directory")),
            Some(got) if got != c => {
                return Some(format!("artifact {p} has {} bytes on disk that differ from the {} generated bytes", got.len(), c.len()))
            }
            _ => {}
        }
    }
    for p in tree.files.keys() {
        if !want_files.contains_key(p) {
            return Some(format!("file {p} is in the directory but is not a generated artifact"));
        }
    }
    for d in &tree.dirs {
        let prefix = format!("{d}/");
        if !want_files.keys().any(|f| f.starts_with(&prefix)) {
            return Some(format!("directory {d} is in the artifact directory but no artifact lives under it"));
        }
    }
    None
}
