//! The system under test: a pico database, a fixed family of `#[memo]`
//! functions whose bodies interpret the run's program table, and the `Real`
//! environment that answers body reads through pico while telling the tracker
//! what was read.

use crate::bodies::{self, Env, Row};
use crate::model::{Dep, NKey, Tracker};
use crate::prog::{Program, NAMES};
use pico::{Database, MemoRef, SourceId, Storage};
use pico_macros::{memo, Db, Singleton, Source};
use std::cell::RefCell;
use std::collections::BTreeMap;

#[derive(Debug, Clone, PartialEq, Eq, Source)]
pub struct Cell {
    #[key]
    pub k: u8,
    pub v: i64,
}

#[derive(Debug, Clone, Copy, PartialEq, Eq, Singleton)]
pub struct SingleA(pub i64);
#[derive(Debug, Clone, Copy, PartialEq, Eq, Singleton)]
pub struct SingleB(pub i64);

#[derive(Db)]
pub struct SimDb {
    pub storage: Storage<Self>,
    #[tracked]
    cells: BTreeMap<u8, SourceId<Cell>>,
    #[tracked]
    tags: BTreeMap<u8, i64>,
}

impl SimDb {
    pub fn new(capacity: usize) -> Self {
        SimDb {
            storage: Storage::new_with_capacity(capacity.max(1).try_into().unwrap()),
            cells: BTreeMap::new(),
            tags: BTreeMap::new(),
        }
    }
}

pub struct Ctx {
    pub program: std::rc::Rc<Program>,
    pub tracker: Tracker,
}

thread_local! {
    pub static CTX: RefCell<Option<Ctx>> = const { RefCell::new(None) };
}

pub fn with_tracker<R>(f: impl FnOnce(&mut Tracker) -> R) -> R {
    CTX.with(|c| f(&mut c.borrow_mut().as_mut().expect("ctx").tracker))
}

fn with_program<R>(f: impl FnOnce(&Program) -> R) -> R {
    // the Rc is cloned out so that no RefCell borrow is held while a body runs
    let p = CTX.with(|c| c.borrow().as_ref().expect("ctx").program.clone());
    f(&p)
}

fn exec_count(key: &NKey) -> u32 {
    with_tracker(|t| t.recs.get(key).map(|r| r.exec_count).unwrap_or(0))
}

/// Wraps a memoized call: tells the tracker about the call, detects whether the body ran,
/// and records the use of the result as a dependency of the calling body.
fn call<R>(key: NKey, f: impl FnOnce() -> R) -> R {
    with_tracker(|t| t.call(&key));
    let before = exec_count(&key);
    let r = f();
    let executed = exec_count(&key) != before;
    with_tracker(|t| t.used(&key, executed));
    r
}

pub struct Real<'a>(pub &'a SimDb);

impl Real<'_> {
    fn tracked_id(&self, k: u8) -> Option<SourceId<Cell>> {
        with_tracker(|t| t.read(Dep::Counter));
        let view = self.0.get_cells();
        view.tracked().get(&k).copied()
    }
    fn untracked_id(&self, k: u8) -> Option<SourceId<Cell>> {
        let view = self.0.get_cells();
        view.untracked().get(&k).copied()
    }
    pub fn rows(&self, m: u8) -> &Vec<Row> {
        call(NKey::Rows(m), || rows(self.0, m))
    }
    pub fn pick(&self, m: u8, i: u8) -> MemoRef<Row> {
        *call(NKey::Pick(m, i), || pick(self.0, m, i))
    }
    pub fn boxed_ref(&self, m: u8) -> MemoRef<Row> {
        *call(NKey::Boxed(m), || boxed(self.0, m))
    }
}

impl Env for Real<'_> {
    fn cell(&self, k: u8) -> Option<i64> {
        let id = self.tracked_id(k)?;
        with_tracker(|t| t.read(Dep::Cell(k)));
        Some(self.0.get(id).v)
    }
    fn cell_u(&self, k: u8) -> Option<i64> {
        let id = self.untracked_id(k)?;
        with_tracker(|t| t.read(Dep::Cell(k)));
        Some(self.0.get(id).v)
    }
    fn single(&self, i: u8) -> Option<i64> {
        with_tracker(|t| t.read(Dep::Single(i % 2)));
        if i % 2 == 0 {
            self.0.get_singleton::<SingleA>().map(|s| s.0)
        } else {
            self.0.get_singleton::<SingleB>().map(|s| s.0)
        }
    }
    fn node(&self, m: u8) -> i64 {
        *call(NKey::Node(m), || node(self.0, m))
    }
    fn iter_map(&self) -> i64 {
        with_tracker(|t| t.read(Dep::Counter));
        let view = self.0.get_cells();
        let mut acc = 0i64;
        for (k, id) in view.tracked().iter() {
            with_tracker(|t| t.read(Dep::Cell(*k)));
            acc = acc
                .wrapping_mul(7)
                .wrapping_add(*k as i64 * 5 + self.0.get(*id).v);
        }
        acc
    }
    fn leaf(&self, k: u8) -> Option<i64> {
        let id = self.tracked_id(k)?;
        Some(*call(NKey::Leaf(k), || leaf(self.0, id)))
    }
    fn leaf_u(&self, k: u8) -> Option<i64> {
        let id = self.untracked_id(k)?;
        Some(*call(NKey::LeafRef(k), || leaf_ref(self.0, &id)))
    }
    fn owned(&self, s: u8) -> i64 {
        let s = s % 3;
        *call(NKey::Owned(s), || owned(self.0, NAMES[s as usize].to_string()))
    }
    fn borrowed(&self, s: u8) -> i64 {
        let s = s % 3;
        let name = NAMES[s as usize].to_string();
        *call(NKey::Borrowed(s), || borrowed(self.0, &name))
    }
    fn use_pick(&self, m: u8, i: u8) -> i64 {
        *call(NKey::UsePick(m, i), || use_pick(self.0, m, i))
    }
    fn boxed(&self, m: u8) -> i64 {
        let r = self.boxed_ref(m);
        let row = r.lookup_tracked(self.0);
        with_tracker(|t| t.read(Dep::D(NKey::IVal(row.clone()))));
        bodies::boxed_value(row)
    }
    fn via_ref(&self, m: u8) -> i64 {
        let r = self.boxed_ref(m);
        let row = r.lookup(self.0).clone();
        *call(NKey::ViaRef(row), || via_ref(self.0, r))
    }
    fn tags(&self) -> i64 {
        with_tracker(|t| t.read(Dep::TagCounter));
        let view = self.0.get_tags();
        view.tracked()
            .iter()
            .fold(3i64, |acc, (k, v)| acc.wrapping_mul(11).wrapping_add(*k as i64 * 3 + *v))
    }
    fn tag(&self, k: u8) -> Option<i64> {
        with_tracker(|t| t.read(Dep::TagCounter));
        let view = self.0.get_tags();
        view.tracked().get(&k).copied()
    }
}

fn cell_key_of(db: &SimDb, id: SourceId<Cell>) -> u8 {
    db.get(id).k
}

// ---------------------------------------------------------------------------
// memoized functions
// ---------------------------------------------------------------------------

#[memo]
pub fn node(db: &SimDb, n: u8) -> i64 {
    let key = NKey::Node(n);
    with_tracker(|t| t.enter(key.clone()));
    let v = with_program(|p| bodies::node_body(&Real(db), p, n));
    with_tracker(|t| t.exit(&key, v));
    v
}

#[memo(raw)]
pub fn raw_node(db: &SimDb, n: u8) -> i64 {
    let key = NKey::Raw(n);
    with_tracker(|t| t.enter(key.clone()));
    let v = with_program(|p| bodies::node_body(&Real(db), p, n)).wrapping_add(1);
    with_tracker(|t| t.exit(&key, v));
    v
}

#[memo]
pub fn leaf(db: &SimDb, id: SourceId<Cell>) -> i64 {
    // the key byte is part of the source; reading it is the (only) read of this body
    let k = cell_key_of(db, id);
    let key = NKey::Leaf(k);
    with_tracker(|t| t.enter(key.clone()));
    with_tracker(|t| t.read(Dep::Cell(k)));
    let v = bodies::leaf_value(db.get(id).v);
    with_tracker(|t| t.exit(&key, v));
    v
}

#[memo]
pub fn leaf_ref(db: &SimDb, id: &SourceId<Cell>) -> i64 {
    let k = cell_key_of(db, *id);
    let key = NKey::LeafRef(k);
    with_tracker(|t| t.enter(key.clone()));
    with_tracker(|t| t.read(Dep::Cell(k)));
    let v = bodies::leaf_ref_value(db.get(*id).v);
    with_tracker(|t| t.exit(&key, v));
    v
}

fn name_index(s: &str) -> u8 {
    NAMES.iter().position(|n| *n == s).expect("name") as u8
}

#[memo]
pub fn owned(db: &SimDb, s: String) -> i64 {
    let i = name_index(&s);
    let key = NKey::Owned(i);
    with_tracker(|t| t.enter(key.clone()));
    let v = bodies::owned_value(&Real(db), i);
    with_tracker(|t| t.exit(&key, v));
    v
}

#[memo]
pub fn borrowed(db: &SimDb, s: &String) -> i64 {
    let i = name_index(s);
    let key = NKey::Borrowed(i);
    with_tracker(|t| t.enter(key.clone()));
    let v = bodies::borrowed_value(&Real(db), i);
    with_tracker(|t| t.exit(&key, v));
    v
}

fn rows_hash(rows: &[Row]) -> i64 {
    let mut h: i64 = 1469598103;
    for r in rows {
        h = h
            .wrapping_mul(1099511)
            .wrapping_add(r.owner as i64 * 31 + r.val + 3);
    }
    h
}

#[memo]
pub fn rows(db: &SimDb, n: u8) -> Vec<Row> {
    let key = NKey::Rows(n);
    with_tracker(|t| t.enter(key.clone()));
    let v = with_program(|p| bodies::rows_body(&Real(db), p, n));
    with_tracker(|t| t.exit(&key, rows_hash(&v)));
    v
}

fn row_identity(row: &Row) -> i64 {
    row.owner as i64 * 16 + row.val
}

#[memo]
pub fn pick(db: &SimDb, n: u8, i: u8) -> MemoRef<Row> {
    let key = NKey::Pick(n, i);
    with_tracker(|t| t.enter(key.clone()));
    let e = Real(db);
    let rs = e.rows(n);
    let row = &rs[bodies::row_index(rs.len(), i)];
    let r = db.intern_ref(row);
    with_tracker(|t| t.interned_ref(NKey::IRef(row.clone()), n));
    with_tracker(|t| t.exit(&key, row_identity(row)));
    r
}

#[memo]
pub fn use_pick(db: &SimDb, n: u8, i: u8) -> i64 {
    let key = NKey::UsePick(n, i);
    with_tracker(|t| t.enter(key.clone()));
    let e = Real(db);
    let r = e.pick(n, i);
    let row = r.lookup_tracked(db);
    with_tracker(|t| t.read(Dep::D(NKey::IRef(row.clone()))));
    let v = bodies::use_pick_value(row, i);
    with_tracker(|t| t.exit(&key, v));
    v
}

#[memo]
pub fn boxed(db: &SimDb, n: u8) -> MemoRef<Row> {
    let key = NKey::Boxed(n);
    with_tracker(|t| t.enter(key.clone()));
    let e = Real(db);
    let row = e.rows(n)[0].clone();
    let r = db.intern_value(row.clone());
    with_tracker(|t| t.interned(NKey::IVal(row.clone())));
    with_tracker(|t| t.exit(&key, row_identity(&row) + 1_000_000));
    r
}

#[memo]
pub fn via_ref(db: &SimDb, r: MemoRef<Row>) -> i64 {
    let row = r.lookup_tracked(db);
    let key = NKey::ViaRef(row.clone());
    with_tracker(|t| t.enter(key.clone()));
    with_tracker(|t| t.read(Dep::D(NKey::IVal(row.clone()))));
    let v = bodies::via_ref_value(row);
    with_tracker(|t| t.exit(&key, v));
    v
}

// twins: (a) identical name and signature in two modules, different bodies
// The two modules live in two copy-pasted files (twins/twins_a.rs, twins/twins_b.rs): the
// `#[memo]` attributes sit at the same line and column, the signatures are token-identical and
// the module paths differ only in their last character, so nothing but the module path can
// tell the two functions apart.
#[path = "twins/twins_a.rs"]
pub mod twins_a;
#[path = "twins/twins_b.rs"]
pub mod twins_b;
// (b) different names, same parameters
#[memo]
pub fn twin_c(db: &SimDb, k: u8) -> i64 {
    let key = NKey::TwinC(k);
    with_tracker(|t| t.enter(key.clone()));
    let v = bodies::twin_c_value(&Real(db), k);
    with_tracker(|t| t.exit(&key, v));
    v
}
#[memo]
pub fn twin_d(db: &SimDb, k: u8) -> i64 {
    let key = NKey::TwinD(k);
    with_tracker(|t| t.enter(key.clone()));
    let v = bodies::twin_d_value(&Real(db), k);
    with_tracker(|t| t.exit(&key, v));
    v
}

// (c) more shapes of "different functions that a key construction could confuse"; all share
// one body that is parameterised by the shape number
pub fn twin_x_body(db: &SimDb, shape: u8, k: u8) -> i64 {
    let key = NKey::TwinX(shape, k);
    with_tracker(|t| t.enter(key.clone()));
    let v = bodies::twin_x_value(&Real(db), shape, k);
    with_tracker(|t| t.exit(&key, v));
    v
}
// shapes 0 and 1: two functions emitted by ONE macro_rules invocation into one module: module
// path, line and column of the definition site are identical, only the signatures differ
macro_rules! memo_pair {
    ($a:ident, $sa:expr, $b:ident, $sb:expr) => {
        #[memo]
        pub fn $a(db: &SimDb, k: u8) -> i64 {
            twin_x_body(db, $sa, k)
        }
        #[memo]
        pub fn $b(db: &SimDb, k: u8) -> i64 {
            twin_x_body(db, $sb, k)
        }
    };
}
memo_pair!(twin_x0, 0, twin_x1, 1);
// shapes 2 and 3: same name and signature in modules `v11` (attribute on line 9) and `v1`
// (attribute on line 19), same column: "v11" ++ "9" == "v1" ++ "19" for any key construction
// that concatenates the parts of the definition site without separators
#[path = "twins/v11.rs"]
pub mod v11;
#[path = "twins/v1.rs"]
pub mod v1;
const _: () = assert!(v11::MEMO_LINE == 9 && v1::MEMO_LINE == 19, "layout of twins/v11.rs / twins/v1.rs changed");
// shapes 4 and 5: module paths of equal length differing in the middle
#[path = "twins/p.rs"]
pub mod twins_p;
#[path = "twins/q.rs"]
pub mod twins_q;

// shapes 6 and 7: associated functions with one name and signature, emitted by TWO invocations
// of one macro arm into one module: only the invocation sites (line) differ
macro_rules! memo_assoc {
    ($ty:ident, $shape:expr) => {
        pub struct $ty;
        impl $ty {
            #[memo]
            pub fn twin(db: &SimDb, k: u8) -> i64 {
                twin_x_body(db, $shape, k)
            }
        }
    };
}
memo_assoc!(AssocA, 6);
memo_assoc!(AssocB, 7);
// shapes 8 and 9: one module, one signature, attributes at (12, 1) and (8, 5)
#[path = "twins/xor.rs"]
pub mod twins_xor;
const _: () = {
    let src = include_str!("twins/xor.rs").as_bytes();
    // the attribute lines really are where the module says (line 8 indented by four, line 12 not)
    let mut line = 1u32;
    let mut i = 0;
    let mut ok8 = false;
    let mut ok12 = false;
    while i < src.len() {
        if line == twins_xor::LOCAL_MEMO_LINE && i + 11 < src.len() && src[i] == b' ' && src[i + 3] == b' ' && src[i + 4] == b'#' {
            ok8 = true;
        }
        if line == twins_xor::FREE_MEMO_LINE && src[i] == b'#' && (i == 0 || src[i - 1] == b'\n') {
            ok12 = true;
        }
        if src[i] == b'\n' {
            line += 1;
        }
        i += 1;
    }
    assert!(ok8 && ok12, "layout of twins/xor.rs changed");
};

pub fn twin_x(db: &SimDb, shape: u8, k: u8) -> i64 {
    match shape % 10 {
        6 => *AssocA::twin(db, k),
        7 => *AssocB::twin(db, k),
        8 => *twins_xor::twin(db, k),
        9 => twins_xor::local_twin(db, k),
        0 => *twin_x0(db, k),
        1 => *twin_x1(db, k),
        2 => *v11::twin(db, k),
        3 => *v1::twin(db, k),
        4 => *twins_p::x::twin(db, k),
        5 => *twins_q::x::twin(db, k),
        _ => unreachable!(),
    }
}

// ---------------------------------------------------------------------------
// top-level helpers used by the executor
// ---------------------------------------------------------------------------

pub fn top_call<R>(key: NKey, f: impl FnOnce() -> R) -> R {
    call(key, f)
}

pub fn set_cell(db: &mut SimDb, k: u8, v: i64, is_new: bool) {
    let id = db.set(Cell { k, v });
    if is_new {
        db.get_cells_mut().tracked().insert(k, id);
    }
}

pub fn remove_cell(db: &mut SimDb, k: u8) {
    let id = *db.get_cells().untracked().get(&k).expect("harness: key present");
    db.remove(id);
    db.get_cells_mut().tracked().remove(&k);
}

pub fn tag_set(db: &mut SimDb, k: u8, v: i64) {
    db.get_tags_mut().tracked().insert(k, v);
}

pub fn tag_remove(db: &mut SimDb, k: u8) {
    db.get_tags_mut().tracked().remove(&k);
}

pub fn touch_map(db: &mut SimDb) {
    let _ = db.get_cells_mut().tracked();
}

pub fn cell_id(db: &SimDb, k: u8) -> Option<SourceId<Cell>> {
    db.get_cells().untracked().get(&k).copied()
}
