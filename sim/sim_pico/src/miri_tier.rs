//! Miri tier of C03: the same generated histories, interpreted by Miri, which
//! decides the "no undefined behaviour" clause (use after free, invalid
//! references, uninitialised reads). Each Miri process runs a block of seeds; a
//! non-zero exit is attributed to the run announced by the last `B <index>`
//! line and re-run alone in a fresh Miri process.

use crate::prog::{self, Case, Scenario};
use serde_json::Value;
use simcore::rng::derive_seed;
use std::io::Read as _;
use std::path::PathBuf;
use std::process::{Command, Stdio};

pub const MIRI_SALT: u64 = 0x4444;

pub struct MiriOutcome {
    pub histories: u64,
    pub processes: u64,
    /// (run index, seed, stderr excerpt) of blocks that Miri aborted
    pub failures: Vec<(u64, u64, String)>,
    pub violations: Vec<Value>,
    pub wall_s: f64,
    pub counters: std::collections::BTreeMap<String, u64>,
}

fn sim_dir() -> PathBuf {
    simcore::evidence::verif_root().join("sim")
}

fn miri_command(args: &[String]) -> Command {
    let mut cmd = Command::new("cargo");
    cmd.current_dir(sim_dir())
        .arg("+nightly")
        .arg("miri")
        .arg("run")
        .arg("--offline")
        .arg("--release")
        .arg("-q")
        .arg("-p")
        .arg("sim_pico")
        .arg("--")
        .args(args)
        .env("MIRIFLAGS", "-Zmiri-disable-isolation")
        .env("CARGO_NET_OFFLINE", "true")
        .stdin(Stdio::null())
        .stdout(Stdio::piped())
        .stderr(Stdio::piped());
    cmd
}

fn excerpt(stderr: &str) -> String {
    let lines: Vec<&str> = stderr.lines().collect();
    if let Some(pos) = lines
        .iter()
        .position(|l| l.contains("Undefined Behavior") || l.starts_with("error"))
    {
        lines[pos..(pos + 12).min(lines.len())].join("\n")
    } else {
        lines[lines.len().saturating_sub(12)..].join("\n")
    }
}

/// Pre-builds the Miri target (used by setup and before the parallel batch).
pub fn prebuild() -> bool {
    let out = miri_command(&[
        "miri-batch".into(),
        "--scenario".into(),
        "gcsmall".into(),
        "--count".into(),
        "0".into(),
    ])
    .output();
    matches!(out, Ok(o) if o.status.success())
}

pub fn run_batch(base: u64, processes: u64, per_process: u64) -> MiriOutcome {
    let start = std::time::Instant::now();
    let mut out = MiriOutcome {
        histories: 0,
        processes,
        failures: vec![],
        violations: vec![],
        wall_s: 0.0,
        counters: Default::default(),
    };
    if !prebuild() {
        simcore::harness_error("cannot build sim_pico for Miri (cargo +nightly miri)");
    }
    let mut children = Vec::new();
    for p in 0..processes {
        let args: Vec<String> = vec![
            "miri-batch".into(),
            "--scenario".into(),
            "gcsmall".into(),
            "--base".into(),
            base.to_string(),
            "--start".into(),
            (p * per_process).to_string(),
            "--count".into(),
            per_process.to_string(),
        ];
        match miri_command(&args).spawn() {
            Ok(c) => children.push((p, c)),
            Err(e) => simcore::harness_error(&format!("cannot spawn cargo miri: {e}")),
        }
    }
    for (_p, mut c) in children {
        let mut so = String::new();
        let mut se = String::new();
        // stdout/stderr of one block are small; read sequentially after the child is done
        let mut stdout = c.stdout.take().unwrap();
        let mut stderr = c.stderr.take().unwrap();
        let t = std::thread::spawn(move || {
            let mut s = String::new();
            let _ = stderr.read_to_string(&mut s);
            s
        });
        let _ = stdout.read_to_string(&mut so);
        let status = c.wait().expect("wait");
        se.push_str(&t.join().unwrap_or_default());
        let mut last_b: Option<u64> = None;
        let mut begun = 0u64;
        for line in so.lines() {
            if let Some(rest) = line.strip_prefix("B ") {
                last_b = rest.trim().parse().ok();
                begun += 1;
            } else if let Some(rest) = line.strip_prefix("V ") {
                if let Ok(v) = serde_json::from_str::<Value>(rest) {
                    out.violations.push(v);
                }
            } else if let Some(rest) = line.strip_prefix("S ") {
                if let Ok(v) = serde_json::from_str::<Value>(rest) {
                    if let Some(c) = v.get("counters").and_then(|c| c.as_object()) {
                        simcore::runner::merge_counters(&mut out.counters, c);
                    }
                }
            }
        }
        if status.success() {
            out.histories += begun;
        } else {
            out.histories += begun.saturating_sub(1);
            match last_b {
                Some(index) => {
                    let seed = derive_seed(base ^ MIRI_SALT, index);
                    out.failures.push((index, seed, excerpt(&se)));
                }
                None => simcore::harness_error(&format!(
                    "cargo miri failed before the first run: {}",
                    excerpt(&se)
                )),
            }
        }
    }
    out.wall_s = start.elapsed().as_secs_f64();
    out
}

/// Runs one explicit case alone under Miri. Returns Some(excerpt) when Miri aborts
/// (undefined behaviour or any other Miri error), None when the case completes.
pub fn case_fails_under_miri(case: &Case) -> Option<String> {
    let json = serde_json::to_string(case).unwrap();
    let out = miri_command(&["miri-case".into(), json])
        .output()
        .unwrap_or_else(|e| simcore::harness_error(&format!("cannot run cargo miri: {e}")));
    if out.status.success() {
        None
    } else {
        Some(excerpt(&String::from_utf8_lossy(&out.stderr)))
    }
}

pub fn regenerate(base: u64, index: u64) -> (u64, Case) {
    let seed = derive_seed(base ^ MIRI_SALT, index);
    (seed, prog::generate(seed, Scenario::GcSmall))
}

/// Delta debugging under Miri; every candidate is a fresh Miri process (slow: a small budget).
pub fn minimise_under_miri(case: Case, budget: usize) -> (Case, usize) {
    let mut cur = case;
    let (ops, st) = simcore::shrink::ddmin(cur.ops.clone(), budget, |ops| {
        let mut c = cur.clone();
        c.ops = ops.to_vec();
        case_fails_under_miri(&c).is_some()
    });
    cur.ops = ops;
    (cur, st.candidates)
}
