pub mod bodies;
pub mod exec;
pub mod model;
pub mod prog;
pub mod real;
pub mod miri_tier;
