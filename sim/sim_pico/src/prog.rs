//! The simulated program (a per-run table interpreted by the memoized bodies),
//! the operation alphabet, and the seeded generator.

use serde::{Deserialize, Serialize};
use simcore::Rng;

pub const ABSENT: i64 = -7;
pub const MAX_CELLS: u8 = 4;
pub const MAX_NODES: u8 = 8;
pub const NAMES: [&str; 3] = ["a", "b", "ab"];

#[derive(Serialize, Deserialize, Clone, Debug, PartialEq, Eq, Hash, PartialOrd, Ord)]
pub enum Atom {
    /// tracked map lookup, then the source
    Cell(u8),
    /// untracked map lookup, then the source (only for keys that are never removed)
    CellU(u8),
    /// singleton source 0 (A) or 1 (B)
    Single(u8),
    /// memoized `node(m)`, m < current node
    Node(u8),
    /// iterate the tracked map and read every source
    IterMap,
    /// tracked map lookup, then memoized `leaf(SourceId)`
    Leaf(u8),
    /// untracked map lookup, then memoized `leaf_ref(&SourceId)` (stable keys only)
    LeafU(u8),
    /// memoized fn with an owned `String` parameter
    Owned(u8),
    /// memoized fn with a borrowed `&String` parameter
    Borrowed(u8),
    /// `use_pick(m, i)`: pick(m,i) = intern_ref(&rows(m)[i]), then lookup_tracked
    UsePick(u8, u8),
    /// `boxed(m)` = intern_value(rows(m)[0].clone()), then lookup_tracked
    Boxed(u8),
    /// `via_ref(*boxed(m))`: memoized fn taking a MemoRef parameter
    ViaRef(u8),
    /// iterate a second tracked field, a map of plain values (no sources behind it: its
    /// tracked mutations are the only thing that advances the epoch)
    Tags,
    /// tracked lookup of one key of that map
    Tag(u8),
}

#[derive(Serialize, Deserialize, Clone, Debug, PartialEq, Eq, Hash)]
pub enum Read {
    A(Atom),
    /// dynamic dependency: evaluate test; odd -> then, even -> else
    Cond(Atom, Atom, Atom),
}

#[derive(Serialize, Deserialize, Clone, Debug, PartialEq, Eq, Hash)]
pub struct NodeDef {
    pub reads: Vec<Read>,
    pub shift: u8,
    pub modulo: i64,
}

#[derive(Serialize, Deserialize, Clone, Debug, PartialEq, Eq, Hash)]
pub struct Program {
    pub nodes: Vec<NodeDef>,
    /// keys set in the prelude and never removed (the only keys CellU / LeafU may use)
    pub stable_keys: Vec<u8>,
    /// rows carry their owner node, so equal rows never come from two owners
    /// (generator constraint for known finding C03/intern_ref-two-owners)
    pub row_owner_tag: bool,
}

#[derive(Serialize, Deserialize, Clone, Debug, PartialEq, Eq, Hash)]
pub enum Op {
    Set(u8, i64),
    Remove(u8),
    SetSingle(u8, i64),
    RemoveSingle(u8),
    TouchMap,
    CallNode(u8),
    CallLeaf(u8),
    CallLeafRef(u8),
    CallOwned(u8),
    CallBorrowed(u8),
    CallRows(u8),
    CallPick(u8, u8),
    CallUsePick(u8, u8),
    CallBoxed(u8),
    CallViaRef(u8),
    CallRaw(u8),
    CallTwinA(u8),
    CallTwinB(u8),
    CallTwinC(u8),
    CallTwinD(u8),
    /// more twin shapes (see real.rs): (shape, argument)
    CallTwinX(u8, u8),
    /// intern_value(Row{owner:255,val}) at top level, stored in a slot
    InternTop(i64),
    /// look up stored reference number (index mod stored refs)
    Lookup(u8),
    /// call raw_node(n) and retain it
    Retain(u8),
    ClearRetain(u8),
    NeverGc(u8),
    Gc,
    /// tracked mutation of the plain-value map: insert / overwrite
    TagSet(u8, i64),
    /// tracked mutation of the plain-value map: remove
    TagRemove(u8),
}

#[derive(Serialize, Deserialize, Clone, Debug, PartialEq, Eq, Hash)]
pub struct Case {
    pub capacity: usize,
    pub program: Program,
    pub ops: Vec<Op>,
    /// only set by the directed replay of known finding C03/intern_ref-stale-owner: lifts the
    /// generator constraint "a stored intern_ref reference is read only while its owner still
    /// holds the value it pointed into"
    #[serde(default, skip_serializing_if = "is_false")]
    pub lookup_stale_owner: bool,
}

fn is_false(b: &bool) -> bool {
    !*b
}

impl Case {
    pub fn canonical_hash(&self) -> u64 {
        simcore::fnv1a(serde_json::to_string(self).unwrap().as_bytes())
    }
}

#[derive(Clone, Copy, Debug, PartialEq, Eq)]
pub enum Scenario {
    /// general histories (C01, C02)
    General,
    /// biased to GC, small capacities, retain, interning (C03)
    Gc,
    /// same-signature functions in different modules (C04)
    Twins,
    /// like Gc but short (<= 24 operations, <= 4 nodes): the histories the Miri tier interprets
    GcSmall,
    /// like Gc, but rows carry no owner tag (equal rows can come from two owner nodes) and no
    /// body dereferences an intern_ref reference: every read of such a reference is a
    /// top-level `Lookup`, guarded by the model's replay of the documented re-pointing algorithm
    GcCross,
}

impl Scenario {
    pub fn parse(s: &str) -> Option<Self> {
        match s {
            "general" => Some(Scenario::General),
            "gc" => Some(Scenario::Gc),
            "gcsmall" => Some(Scenario::GcSmall),
            "gccross" => Some(Scenario::GcCross),
            "twins" => Some(Scenario::Twins),
            _ => None,
        }
    }
    pub fn name(&self) -> &'static str {
        match self {
            Scenario::General => "general",
            Scenario::Gc => "gc",
            Scenario::GcSmall => "gcsmall",
            Scenario::GcCross => "gccross",
            Scenario::Twins => "twins",
        }
    }
}

fn gen_atom(rng: &mut Rng, level: u8, n_cells: u8, stable: &[u8], w: &[u32; 14]) -> Atom {
    loop {
        let k = rng.below(n_cells as u64) as u8;
        match rng.weighted(w) {
            0 => return Atom::Cell(k),
            1 => {
                if !stable.is_empty() {
                    return Atom::CellU(*rng.pick(stable));
                }
            }
            2 => return Atom::Single(rng.below(2) as u8),
            3 => {
                if level > 0 {
                    return Atom::Node(rng.below(level as u64) as u8);
                }
            }
            4 => return Atom::IterMap,
            5 => return Atom::Leaf(k),
            6 => {
                if !stable.is_empty() {
                    return Atom::LeafU(*rng.pick(stable));
                }
            }
            7 => return Atom::Owned(rng.below(3) as u8),
            8 => return Atom::Borrowed(rng.below(3) as u8),
            9 => {
                if level > 0 {
                    return Atom::UsePick(rng.below(level as u64) as u8, rng.below(3) as u8);
                }
            }
            10 => {
                if level > 0 {
                    return Atom::Boxed(rng.below(level as u64) as u8);
                }
            }
            11 => {
                if level > 0 {
                    return Atom::ViaRef(rng.below(level as u64) as u8);
                }
            }
            12 => return Atom::Tags,
            _ => return Atom::Tag(rng.below(3) as u8),
        }
    }
}

pub fn generate(seed: u64, scenario: Scenario) -> Case {
    let mut rng = Rng::new(seed);
    // ---- swarm configuration: everything below is drawn from the one seed ----
    let n_cells = rng.range(1, MAX_CELLS as u64) as u8;
    let n_nodes = if matches!(scenario, Scenario::GcSmall) {
        rng.range(1, 4) as u8
    } else {
        rng.range(1, MAX_NODES as u64) as u8
    };
    let value_domain = rng.range(2, 4) as i64;
    let capacity = match scenario {
        Scenario::Gc | Scenario::GcSmall | Scenario::GcCross => *rng.pick(&[1usize, 1, 2, 2, 3, 5]),
        _ => *rng.pick(&[1usize, 2, 3, 5, 10_000, 10_000]),
    };
    let n_stable = rng.below(n_cells as u64 + 1) as u8;
    let mut keys: Vec<u8> = (0..n_cells).collect();
    rng.shuffle(&mut keys);
    let mut stable: Vec<u8> = keys[..n_stable as usize].to_vec();
    stable.sort();

    // atom weights: a random subset is switched off per run (swarm testing)
    let mut aw: [u32; 14] = [6, 3, 5, 7, 2, 3, 2, 1, 1, 3, 2, 2, 2, 2];
    if matches!(scenario, Scenario::Gc | Scenario::GcSmall | Scenario::GcCross) {
        aw[9] += 5;
        aw[10] += 3;
        aw[11] += 2;
    }
    for w in aw.iter_mut() {
        if rng.chance(1, 4) {
            *w = 0;
        }
    }
    aw[0] = aw[0].max(1);
    if matches!(scenario, Scenario::GcCross) {
        aw[9] = 0; // no UsePick atom: bodies never dereference an intern_ref reference
        aw[2] += 6; // singletons: the same value reaches several nodes' rows
    }

    let mut nodes = Vec::new();
    for level in 0..n_nodes {
        let n_reads = rng.range(1, 4);
        let mut reads = Vec::new();
        for _ in 0..n_reads {
            if rng.chance(1, 5) {
                reads.push(Read::Cond(
                    gen_atom(&mut rng, level, n_cells, &stable, &aw),
                    gen_atom(&mut rng, level, n_cells, &stable, &aw),
                    gen_atom(&mut rng, level, n_cells, &stable, &aw),
                ));
            } else {
                reads.push(Read::A(gen_atom(&mut rng, level, n_cells, &stable, &aw)));
            }
        }
        nodes.push(NodeDef {
            reads,
            shift: rng.below(3) as u8,
            modulo: *rng.pick(&[2i64, 3, 5, 1_000_003]),
        });
    }
    let program = Program {
        nodes,
        stable_keys: stable.clone(),
        row_owner_tag: !matches!(scenario, Scenario::GcCross),
    };

    // ---- operation weights ----
    // order: Set Remove SetSingle RemoveSingle TouchMap CallNode CallLeaf CallLeafRef CallOwned
    //        CallBorrowed CallRows CallPick CallUsePick CallBoxed CallViaRef CallRaw InternTop
    //        Lookup Retain ClearRetain NeverGc Gc Twin TagSet TagRemove
    let mut ow: [u32; 25] = match scenario {
        Scenario::General => [
            14, 4, 8, 3, 2, 24, 4, 2, 2, 2, 3, 3, 4, 2, 2, 2, 1, 3, 1, 1, 1, 5, 0, 6, 2,
        ],
        Scenario::GcCross => [
            12, 2, 10, 2, 1, 4, 1, 0, 0, 0, 6, 16, 0, 2, 2, 2, 1, 14, 3, 2, 1, 14, 0, 1, 0,
        ],
        Scenario::Gc | Scenario::GcSmall => [
            10, 3, 5, 2, 1, 12, 2, 1, 1, 1, 5, 8, 9, 4, 4, 4, 2, 8, 4, 3, 2, 14, 0, 2, 1,
        ],
        Scenario::Twins => [
            8, 1, 10, 4, 1, 3, 0, 0, 0, 0, 0, 0, 0, 0, 0, 0, 0, 0, 0, 0, 0, 5, 30, 0, 0,
        ],
    };
    for (i, w) in ow.iter_mut().enumerate() {
        // never switch off Set / CallNode / Twin (and, in GcCross, CallPick / Lookup / Gc);
        // others off with probability 1/5
        let pinned = i == 0 || i == 5 || i == 22 || (matches!(scenario, Scenario::GcCross) && (i == 11 || i == 17 || i == 21));
        if !pinned && rng.chance(1, 5) {
            *w = 0;
        }
    }
    let n_ops = if matches!(scenario, Scenario::GcSmall) {
        rng.range(5, 24) as usize
    } else {
        rng.range(5, 60) as usize
    };
    let mut ops = Vec::with_capacity(n_ops + stable.len());
    for k in &stable {
        ops.push(Op::Set(*k, rng.below(value_domain as u64) as i64));
    }
    for _ in 0..n_ops {
        let k = rng.below(n_cells as u64) as u8;
        let n = rng.below(n_nodes as u64) as u8;
        let v = rng.below(value_domain as u64) as i64;
        let op = match rng.weighted(&ow) {
            0 => Op::Set(k, v),
            1 => Op::Remove(k),
            2 => Op::SetSingle(rng.below(2) as u8, v),
            3 => Op::RemoveSingle(rng.below(2) as u8),
            4 => Op::TouchMap,
            5 => Op::CallNode(n),
            6 => Op::CallLeaf(k),
            7 => Op::CallLeafRef(k),
            8 => Op::CallOwned(rng.below(3) as u8),
            9 => Op::CallBorrowed(rng.below(3) as u8),
            10 => Op::CallRows(n),
            11 => Op::CallPick(n, rng.below(3) as u8),
            12 => Op::CallUsePick(n, rng.below(3) as u8),
            13 => Op::CallBoxed(n),
            14 => Op::CallViaRef(n),
            15 => Op::CallRaw(n),
            16 => Op::InternTop(v),
            17 => Op::Lookup(rng.below(8) as u8),
            18 => Op::Retain(n),
            19 => Op::ClearRetain(rng.below(4) as u8),
            20 => Op::NeverGc(rng.below(4) as u8),
            21 => Op::Gc,
            23 => Op::TagSet(rng.below(3) as u8, v),
            24 => Op::TagRemove(rng.below(3) as u8),
            _ => match rng.below(14) {
                0 => Op::CallTwinA(rng.below(2) as u8),
                1 => Op::CallTwinB(rng.below(2) as u8),
                2 => Op::CallTwinC(rng.below(2) as u8),
                3 => Op::CallTwinD(rng.below(2) as u8),
                n => Op::CallTwinX((n - 4) as u8, rng.below(2) as u8),
            },
        };
        ops.push(op);
    }
    Case {
        capacity,
        program,
        ops,
        lookup_stale_owner: false,
    }
}
