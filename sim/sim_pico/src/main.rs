//! sim_pico: deterministic simulation of pico histories (properties C01-C04).
//!
//!   sim_pico run --property C01 --tier quick|thorough   (VERIF_SEED from env)
//!   sim_pico worker --scenario S --base B --start a --count n [--loghash]
//!   sim_pico exec-json                 case JSON on stdin -> result JSON on stdout
//!   sim_pico replay <file>
//!   sim_pico selftest [--runs N]       determinism proof
//!   sim_pico miri-batch --scenario S --base B --start a --count n   (in-process, for Miri)

use serde_json::{json, Value};
use sim_pico::exec::{self, Outcome};
use sim_pico::prog::{self, Case, NodeDef, Op, Read, Scenario};
use simcore::evidence::{verif_root, Evidence};
use simcore::rng::derive_seed;
use simcore::runner::{self, BatchConfig, BlockReport};
use std::panic::{catch_unwind, AssertUnwindSafe};
use std::path::PathBuf;

fn arg_value(args: &[String], name: &str) -> Option<String> {
    args.iter()
        .position(|a| a == name)
        .and_then(|i| args.get(i + 1).cloned())
}
fn arg_u64(args: &[String], name: &str, default: u64) -> u64 {
    arg_value(args, name)
        .and_then(|s| s.parse().ok())
        .unwrap_or(default)
}

thread_local! {
    static LAST_PANIC: std::cell::RefCell<String> = const { std::cell::RefCell::new(String::new()) };
}

fn install_quiet_panic_hook() {
    if std::env::var("SIM_DEBUG").is_ok() {
        return;
    }
    std::panic::set_hook(Box::new(|info| {
        let msg = if let Some(s) = info.payload().downcast_ref::<&str>() {
            s.to_string()
        } else if let Some(s) = info.payload().downcast_ref::<String>() {
            s.clone()
        } else {
            "panic".to_string()
        };
        let loc = info
            .location()
            .map(|l| format!(" at {}:{}", l.file(), l.line()))
            .unwrap_or_default();
        LAST_PANIC.with(|p| *p.borrow_mut() = format!("{msg}{loc}"));
    }));
}

/// Result of executing one case in this process.
struct ExecResult {
    outcome: Option<Outcome>,
    panic: Option<String>,
}

fn exec_case(case: &Case) -> ExecResult {
    match catch_unwind(AssertUnwindSafe(|| exec::run_case(case))) {
        Ok(o) => ExecResult {
            outcome: Some(o),
            panic: None,
        },
        Err(_) => {
            // the partially filled tracker is discarded; a panic is its own violation kind
            sim_pico::real::CTX.with(|c| {
                // try_borrow_mut: the panic may have happened while the tracker was borrowed
                if let Ok(mut b) = c.try_borrow_mut() {
                    *b = None;
                }
            });
            ExecResult {
                outcome: None,
                panic: Some(LAST_PANIC.with(|p| p.borrow().clone())),
            }
        }
    }
}

/// All violations of a case as JSON objects {property, kind, detail, op_index}.
fn violations_of(case: &Case, res: &ExecResult) -> Vec<Value> {
    let mut v = Vec::new();
    if let Some(o) = &res.outcome {
        for x in &o.violations {
            v.push(json!({"property": x.property, "kind": x.kind, "detail": x.detail, "op_index": x.op_index}));
        }
    }
    if let Some(p) = &res.panic {
        // a panic inside pico on a history that obeys pico's documented contract:
        // attributed to C03 when a collection preceded it, otherwise to C01
        let had_gc = case.ops.iter().any(|o| matches!(o, Op::Gc));
        let twins = case.ops.iter().any(|o| {
            matches!(
                o,
                Op::CallTwinA(_) | Op::CallTwinB(_) | Op::CallTwinC(_) | Op::CallTwinD(_) | Op::CallTwinX(_, _)
            )
        });
        let property = if twins {
            "C04"
        } else if had_gc {
            "C03"
        } else {
            "C01"
        };
        v.push(json!({"property": property, "kind": "panic", "detail": p, "op_index": -1}));
    }
    v
}

fn worker(args: &[String], in_process: bool) {
    let scenario = Scenario::parse(&arg_value(args, "--scenario").unwrap_or_default())
        .unwrap_or_else(|| simcore::harness_error("worker: bad --scenario"));
    let base = arg_u64(args, "--base", 0);
    let start = arg_u64(args, "--start", 0);
    let count = arg_u64(args, "--count", 0);
    let loghash = args.iter().any(|a| a == "--loghash");
    let focus = arg_value(args, "--focus").unwrap_or_default();
    let mut rep = BlockReport::default();
    for index in start..start + count {
        let _ = in_process;
        rep.begin_run(index);
        let seed = derive_seed(base ^ scenario_salt(scenario), index);
        let case = prog::generate(seed, scenario);
        let res = exec_case(&case);
        rep.count("runs", 1);
        rep.count("logical_steps", case.ops.len() as u64);
        for v in violations_of(&case, &res) {
            let mut obj = v.as_object().unwrap().clone();
            obj.insert("engine".into(), json!("sim_pico"));
            obj.insert("scenario".into(), json!(scenario.name()));
            obj.insert("index".into(), json!(index));
            obj.insert("seed".into(), json!(seed));
            obj.insert("base".into(), json!(base));
            obj.insert("case".into(), serde_json::to_value(&case).unwrap());
            rep.violation(&Value::Object(obj));
            rep.count("violations_seen", 1);
        }
        if let Some(o) = &res.outcome {
            for (k, n) in &o.counters {
                rep.count(k, *n);
            }
            // under Miri the hash is the seed (serialising the case is too slow there)
            let h = if cfg!(miri) { seed } else { case.canonical_hash() };
            let nontrivial = match focus.as_str() {
                "C01" => o.nontrivial_c01,
                "C02" => o.nontrivial_c02,
                "C03" => o.nontrivial_c03,
                "C04" => o.nontrivial_c04,
                _ => match scenario {
                    Scenario::General => o.nontrivial_c01 || o.nontrivial_c02,
                    Scenario::Gc | Scenario::GcSmall | Scenario::GcCross => o.nontrivial_c03,
                    Scenario::Twins => o.nontrivial_c04,
                },
            };
            if o.nontrivial_c01 {
                rep.count("nontrivial.c01", 1);
            }
            if o.nontrivial_c02 {
                rep.count("nontrivial.c02", 1);
            }
            if o.nontrivial_c03 {
                rep.count("nontrivial.c03", 1);
            }
            if o.nontrivial_c04 {
                rep.count("nontrivial.c04", 1);
            }
            if nontrivial {
                rep.nontrivial_case(h);
                if rep.samples.len() < 2 && !cfg!(miri) {
                    rep.sample(json!({"seed": seed, "scenario": scenario.name(), "capacity": case.capacity,
                        "program_nodes": case.program.nodes.len(),
                        "ops": case.ops.iter().map(|o| format!("{o:?}")).collect::<Vec<_>>()}));
                }
            }
            if loghash {
                rep.loghash(index, o.loghash);
            }
        } else if loghash {
            rep.loghash(index, simcore::fnv1a(res.panic.as_deref().unwrap_or("").as_bytes()));
        }
    }
    rep.finish();
}

fn scenario_salt(s: Scenario) -> u64 {
    match s {
        Scenario::General => 0x1111,
        Scenario::Gc => 0x2222,
        Scenario::Twins => 0x3333,
        Scenario::GcSmall => 0x4444,
        Scenario::GcCross => 0x5555,
    }
}

fn exec_json() {
    let mut text = String::new();
    use std::io::Read as _;
    std::io::stdin().read_to_string(&mut text).ok();
    let case: Case = match serde_json::from_str(&text) {
        Ok(c) => c,
        Err(e) => simcore::harness_error(&format!("exec-json: bad case: {e}")),
    };
    let res = exec_case(&case);
    let out = json!({"violations": violations_of(&case, &res),
        "loghash": res.outcome.as_ref().map(|o| format!("{:016x}", o.loghash))});
    println!("{}", serde_json::to_string(&out).unwrap());
}

/// Execute a case in a fresh child process; returns the (property, kind) pairs it violates.
/// An abnormal exit (signal) is the violation ("C03","crash").
fn classify_in_child(case: &Case) -> Vec<(String, String, String)> {
    let exe = std::env::current_exe().unwrap();
    let (status, stdout) = runner::run_child_with_stdin(
        &exe,
        &["exec-json".to_string()],
        &serde_json::to_string(case).unwrap(),
        &[],
    );
    if status != "ok" {
        if status.contains("exit status: 2") {
            simcore::harness_error("exec-json child reported a harness error");
        }
        return vec![("C03".into(), "crash".into(), status)];
    }
    let v: Value = serde_json::from_str(stdout.trim()).unwrap_or(json!({"violations": []}));
    v["violations"]
        .as_array()
        .cloned()
        .unwrap_or_default()
        .iter()
        .map(|x| {
            (
                x["property"].as_str().unwrap_or("").to_string(),
                x["kind"].as_str().unwrap_or("").to_string(),
                x["detail"].as_str().unwrap_or("").to_string(),
            )
        })
        .collect()
}

fn fails_with(case: &Case, property: &str, kind: &str) -> bool {
    classify_in_child(case)
        .iter()
        .any(|(p, k, _)| p == property && k == kind)
}

fn simpler_ops(op: &Op) -> Vec<Op> {
    match op {
        Op::Set(k, v) if *v != 0 => vec![Op::Set(*k, 0)],
        Op::SetSingle(i, v) if *v != 0 => vec![Op::SetSingle(*i, 0)],
        Op::CallUsePick(n, i) => vec![Op::CallPick(*n, *i), Op::CallRows(*n)],
        Op::CallViaRef(n) => vec![Op::CallBoxed(*n)],
        Op::Retain(n) => vec![Op::CallRaw(*n)],
        _ => vec![],
    }
}

fn minimise(case: Case, property: &str, kind: &str) -> (Case, usize) {
    let mut budget = 2000usize;
    let mut cur = case;
    let mut used = 0usize;
    // 1. operations
    let (ops, st) = simcore::shrink::ddmin(cur.ops.clone(), budget, |ops| {
        let mut c = cur.clone();
        c.ops = ops.to_vec();
        fails_with(&c, property, kind)
    });
    cur.ops = ops;
    used += st.candidates;
    budget = budget.saturating_sub(st.candidates);
    // 2. program: drop reads, flatten conditions
    let mut progress = true;
    while progress && budget > 0 {
        progress = false;
        for n in 0..cur.program.nodes.len() {
            let def: NodeDef = cur.program.nodes[n].clone();
            let mut cands: Vec<NodeDef> = Vec::new();
            for r in 0..def.reads.len() {
                if def.reads.len() > 1 {
                    let mut d = def.clone();
                    d.reads.remove(r);
                    cands.push(d);
                }
                if let Read::Cond(t, a, b) = &def.reads[r] {
                    for x in [t, a, b] {
                        let mut d = def.clone();
                        d.reads[r] = Read::A(x.clone());
                        cands.push(d);
                    }
                }
            }
            if def.shift != 0 || def.modulo != 1_000_003 {
                let mut d = def.clone();
                d.shift = 0;
                d.modulo = 1_000_003;
                cands.push(d);
            }
            for d in cands {
                if budget == 0 {
                    break;
                }
                budget -= 1;
                used += 1;
                let mut c = cur.clone();
                c.program.nodes[n] = d;
                if fails_with(&c, property, kind) {
                    cur = c;
                    progress = true;
                    break;
                }
            }
        }
    }
    // 3. simpler operations, then operations once more
    let (ops, st) = simcore::shrink::simplify_elements(cur.ops.clone(), budget, simpler_ops, |ops| {
        let mut c = cur.clone();
        c.ops = ops.to_vec();
        fails_with(&c, property, kind)
    });
    cur.ops = ops;
    used += st.candidates;
    budget = budget.saturating_sub(st.candidates);
    let (ops, st) = simcore::shrink::ddmin(cur.ops.clone(), budget, |ops| {
        let mut c = cur.clone();
        c.ops = ops.to_vec();
        fails_with(&c, property, kind)
    });
    cur.ops = ops;
    used += st.candidates;
    (cur, used)
}

fn write_replay(property: &str, kind: &str, seed: u64, scenario: &str, detail: &str, case: &Case, original_ops: usize) -> PathBuf {
    let dir = verif_root().join("replays");
    let _ = std::fs::create_dir_all(&dir);
    let path = dir.join(format!("{property}-sim_pico-{scenario}-{seed:016x}.json"));
    let v = json!({
        "engine": "sim_pico", "scenario": scenario, "property": property, "seed": seed,
        "expect": {"property": property, "kind": kind},
        "detail": detail,
        "original_ops": original_ops,
        "case": case,
    });
    std::fs::write(&path, serde_json::to_string_pretty(&v).unwrap())
        .unwrap_or_else(|e| simcore::harness_error(&format!("cannot write replay: {e}")));
    path
}

fn replay(path: &str) -> i32 {
    let text = std::fs::read_to_string(path)
        .unwrap_or_else(|e| simcore::harness_error(&format!("replay: {path}: {e}")));
    let v: Value = serde_json::from_str(&text)
        .unwrap_or_else(|e| simcore::harness_error(&format!("replay: {path}: {e}")));
    let case: Case = serde_json::from_value(v["case"].clone())
        .unwrap_or_else(|e| simcore::harness_error(&format!("replay: bad case: {e}")));
    let property = v["expect"]["property"].as_str().unwrap_or("").to_string();
    let kind = v["expect"]["kind"].as_str().unwrap_or("").to_string();
    if v["miri"].as_bool() == Some(true) {
        return match sim_pico::miri_tier::case_fails_under_miri(&case) {
            Some(why) => {
                println!("replay (Miri): {why}");
                println!("VIOLATION property={property} replay={path}");
                simcore::EXIT_VIOLATION
            }
            None => {
                println!("replay: {path}: Miri completes the case without an error");
                simcore::EXIT_OK
            }
        };
    }
    let found = classify_in_child(&case);
    for (p, k, d) in &found {
        println!("replay: violation property={p} kind={k}: {d}");
    }
    if found.iter().any(|(p, k, _)| *p == property && *k == kind) {
        println!("VIOLATION property={property} replay={path}");
        simcore::EXIT_VIOLATION
    } else {
        println!("replay: {path}: expected ({property},{kind}) did not reproduce");
        simcore::EXIT_OK
    }
}

struct Plan {
    scenarios: Vec<(Scenario, u64)>,
    rule: &'static str,
    nontrivial_counter: &'static str,
}

fn plan_for(property: &str, tier: &str) -> Plan {
    // quick: 5 x the base counts (about 20 s native); thorough: 300 x (time-capped per scenario)
    let scale: u64 = if tier == "thorough" { 300 } else { 5 };
    match property {
        "C01" => Plan {
            scenarios: vec![(Scenario::General, 200_000 * scale), (Scenario::Gc, 100_000 * scale)],
            rule: "one case = seeded program table (1-8 nodes over <=4 cells, 2 singletons, tracked map) + LRU capacity + 5-60 operations (set/remove/singleton/tracked-map/calls/intern/retain/GC); every call result is compared with a from-scratch evaluation of the same body on the model's sources. Non-trivial: the run had at least one cache hit and at least one re-execution of a cached body after a write. Distinct = distinct canonical hash of (capacity, program, ops).",
            nontrivial_counter: "nontrivial.c01",
        },
        "C02" => Plan {
            scenarios: vec![(Scenario::General, 200_000 * scale), (Scenario::Gc, 100_000 * scale)],
            rule: "same cases as C01; every body execution is checked at entry against the licence rule (no cached result, or some entry of its previous read list changed: source version, or dependency whose last execution changed its value). Non-trivial: at least one equal-value write and at least one backdated (equal-value) re-execution in the run. Distinct = distinct canonical case hash.",
            nontrivial_counter: "nontrivial.c02",
        },
        "C03" => Plan {
            scenarios: vec![(Scenario::Gc, 160_000 * scale), (Scenario::GcCross, 90_000 * scale), (Scenario::General, 50_000 * scale)],
            rule: "cases biased to capacities 1-5, GC, retain/clear/never_gc, intern_ref/intern_value and stored-reference lookups; model computes the must-keep closure (LRU of distinct top-level calls within capacity + retained) at each GC; an unlicensed execution of a must-keep node, a stored reference reading a different value, a panic or an abnormal child exit is a violation. Scenario gccross: rows carry no owner tag, so equal rows are interned by reference from several owner nodes; reads of intern_ref references are top-level lookups only, allowed when the value the documented re-pointing algorithm points at is still held by its owner. Non-trivial: at least one GC that both kept and discarded nodes. Distinct = distinct canonical case hash.",
            nontrivial_counter: "nontrivial.c03",
        },
        "C04" => Plan {
            scenarios: vec![(Scenario::Twins, 120_000 * scale)],
            rule: "histories of calls to two #[memo] functions with token-identical signatures in different modules and to two functions with different names and identical parameters, interleaved with singleton writes and GCs; each call must return its own body's from-scratch value. Non-trivial: at least two twin calls. Distinct = distinct canonical case hash.",
            nontrivial_counter: "nontrivial.c04",
        },
        _ => simcore::harness_error("unknown property for sim_pico"),
    }
}

fn run(args: &[String]) -> i32 {
    let property = arg_value(args, "--property").unwrap_or_else(|| simcore::harness_error("--property"));
    let tier = arg_value(args, "--tier")
        .or_else(|| std::env::var("VERIF_TIER").ok())
        .unwrap_or_else(|| "quick".into());
    let seed = simcore::env_u64("VERIF_SEED", 0);
    let workers = simcore::env_u64("VERIF_WORKERS", 16) as usize;
    let plan = plan_for(&property, &tier);
    let runs_override = arg_value(args, "--runs").and_then(|s| s.parse::<u64>().ok());
    let exe = std::env::current_exe().unwrap();
    let root = verif_root();
    println!("sim_pico property={property} tier={tier} VERIF_SEED={seed} workers={workers}");

    let start = std::time::Instant::now();
    let mut total = runner::BatchOutcome::default();
    let mut all_violations: Vec<Value> = Vec::new();
    let mut all_crashes: Vec<(Scenario, runner::Crash)> = Vec::new();
    let mut distinct = 0u64;
    for (scenario, runs) in &plan.scenarios {
        let runs = runs_override.unwrap_or(*runs);
        let cfg = BatchConfig {
            exe: exe.clone(),
            worker_args: vec![
                "worker".into(),
                "--scenario".into(),
                scenario.name().into(),
                "--base".into(),
                seed.to_string(),
                "--focus".into(),
                property.clone(),
            ],
            total_runs: runs,
            block: if tier == "thorough" { 50_000 } else { 10_000 },
            workers,
            max_wall_s: simcore::env_u64("VERIF_MAX_WALL_S", if tier == "thorough" { 1500 } else { 120 }) as f64,
            max_violations: 64,
            env: vec![],
        };
        let out = runner::run_batch(&cfg);
        println!(
            "  scenario={} runs={} violations_seen={} crashes={} wall={:.1}s",
            scenario.name(),
            out.runs_done,
            out.violations.len(),
            out.crashes.len(),
            out.wall_s
        );
        total.runs_done += out.runs_done;
        for (k, v) in &out.counters {
            *total.counters.entry(k.clone()).or_insert(0) += v;
        }
        for s in out.samples {
            if total.samples.len() < 4 {
                total.samples.push(s);
            }
        }
        distinct += out.distinct_nontrivial;
        all_violations.extend(out.violations);
        for c in out.crashes {
            all_crashes.push((*scenario, c));
        }
    }

    // violations owned by this property (others are counted, reported by their own checks)
    let mine: Vec<&Value> = all_violations
        .iter()
        .filter(|v| v["property"].as_str() == Some(property.as_str()))
        .collect();
    let others = all_violations.len() - mine.len();
    let mut exit = simcore::EXIT_OK;
    let mut reported = 0u64;

    // ---- known findings: directed replays ----
    let known = simcore::known::load(&root);
    for f in known.for_property(&property) {
        let Some(rel) = &f.directed_replay else { continue };
        let path = root.join(rel);
        let text = match std::fs::read_to_string(&path) {
            Ok(t) => t,
            Err(_) => continue, // belongs to another engine or missing: that engine reports it
        };
        let v: Value = serde_json::from_str(&text).unwrap_or(Value::Null);
        if v["engine"].as_str() != Some("sim_pico") {
            continue;
        }
        let case: Case = match serde_json::from_value(v["case"].clone()) {
            Ok(c) => c,
            Err(e) => simcore::harness_error(&format!("{}: {e}", path.display())),
        };
        let want_p = v["expect"]["property"].as_str().unwrap_or("");
        let want_k = v["expect"]["kind"].as_str().unwrap_or("");
        let fails = fails_with(&case, want_p, want_k);
        match (f.status.as_str(), fails) {
            ("known", true) => println!("KNOWN-FINDING: property={} {} ({})", property, f.id, f.what),
            ("known", false) => println!("note: known finding {} no longer reproduces", f.id),
            ("fixed", true) => {
                println!("regression: fixed finding {} fails again", f.id);
                println!("VIOLATION property={} replay={}", property, path.display());
                exit = simcore::EXIT_VIOLATION;
                reported += 1;
            }
            _ => {}
        }
    }

    // ---- crashes (abnormal child exits) belong to C03 ----
    if property == "C03" {
        if let Some((scenario, c)) = all_crashes.first() {
            if let Some(index) = c.index {
                let s = derive_seed(seed ^ scenario_salt(*scenario), index);
                let case = prog::generate(s, *scenario);
                println!("  child died ({}) in run index {index} seed {s:#x}; minimising", c.status);
                let original = case.ops.len();
                if fails_with(&case, "C03", "crash") {
                    let (min, _) = minimise(case, "C03", "crash");
                    let path = write_replay("C03", "crash", s, scenario.name(), &c.status, &min, original);
                    if fails_with(&min, "C03", "crash") {
                        println!("VIOLATION property=C03 replay={}", path.display());
                        exit = simcore::EXIT_VIOLATION;
                        reported += 1;
                    } else {
                        simcore::harness_error("minimised crash does not reproduce in a fresh process");
                    }
                } else {
                    simcore::harness_error(&format!(
                        "worker died ({}) but the run does not crash alone: {}",
                        c.status, c.stderr_tail
                    ));
                }
            } else {
                simcore::harness_error(&format!("worker died before its first run: {} {}", c.status, c.stderr_tail));
            }
        }
    } else if !all_crashes.is_empty() {
        println!("  note: {} worker block(s) died abnormally; the C03 check owns that report", all_crashes.len());
    }

    // ---- first violation by run index: minimise, write replay, confirm in a fresh process ----
    if let Some(v) = mine.first() {
        let kind = v["kind"].as_str().unwrap_or("").to_string();
        let case: Case = serde_json::from_value(v["case"].clone()).expect("case");
        let vseed = v["seed"].as_u64().unwrap_or(0);
        let scen = v["scenario"].as_str().unwrap_or("").to_string();
        println!(
            "  violation property={property} kind={kind} seed={vseed:#x} ops={} : {}",
            case.ops.len(),
            v["detail"].as_str().unwrap_or("")
        );
        if !fails_with(&case, &property, &kind) {
            simcore::harness_error("violation does not reproduce in a fresh process (nondeterminism in the harness)");
        }
        let original = case.ops.len();
        let (min, used) = minimise(case, &property, &kind);
        let detail = classify_in_child(&min)
            .into_iter()
            .find(|(p, k, _)| *p == property && *k == kind)
            .map(|x| x.2)
            .unwrap_or_default();
        println!("  minimised {original} -> {} ops with {used} candidate executions: {detail}", min.ops.len());
        let path = write_replay(&property, &kind, vseed, &scen, &detail, &min, original);
        if !fails_with(&min, &property, &kind) {
            simcore::harness_error("minimised replay does not reproduce in a fresh process");
        }
        println!("VIOLATION property={property} replay={}", path.display());
        exit = simcore::EXIT_VIOLATION;
        reported += 1;
    }

    // ---- Miri tier (C03 only): the undefined-behaviour clause ----
    let mut miri_json = json!({"ran": false});
    if property == "C03" && std::env::var("VERIF_NO_MIRI").is_err() {
        use sim_pico::miri_tier as mt;
        let (procs, per) = if tier == "thorough" { (16u64, 60u64) } else { (16u64, 3u64) };
        let m = mt::run_batch(seed, procs, per);
        println!(
            "  miri tier: {} histories in {} processes, {} aborted by Miri, {} model violations, wall={:.1}s",
            m.histories,
            m.processes,
            m.failures.len(),
            m.violations.len(),
            m.wall_s
        );
        miri_json = json!({"ran": true, "histories": m.histories, "processes": m.processes,
            "aborted_by_miri": m.failures.len(), "wall_s": m.wall_s,
            "flags": "-Zmiri-disable-isolation", "scenario": "gcsmall (<=24 ops, <=4 nodes)",
            "body_executions": m.counters.get("body_executions").copied().unwrap_or(0),
            "gcs": m.counters.get("fault.gc").copied().unwrap_or(0)});
        if let Some((index, mseed, why)) = m.failures.first() {
            println!("  miri aborted run index {index} seed {mseed:#x}:\n{why}");
            let (_, case) = mt::regenerate(seed, *index);
            match mt::case_fails_under_miri(&case) {
                None => simcore::harness_error("Miri failure does not reproduce when the run is executed alone"),
                Some(_) => {
                    let original = case.ops.len();
                    let (min, used) = mt::minimise_under_miri(case, 40);
                    let why2 = mt::case_fails_under_miri(&min)
                        .unwrap_or_else(|| simcore::harness_error("minimised Miri case does not reproduce"));
                    println!("  minimised {original} -> {} ops with {used} Miri executions", min.ops.len());
                    let dir = root.join("replays");
                    let _ = std::fs::create_dir_all(&dir);
                    let path = dir.join(format!("C03-sim_pico-miri-{mseed:016x}.json"));
                    let v = json!({"engine": "sim_pico", "scenario": "gcsmall", "property": "C03", "seed": mseed,
                        "miri": true, "expect": {"property": "C03", "kind": "miri-abort"},
                        "detail": why2, "original_ops": original, "case": min});
                    std::fs::write(&path, serde_json::to_string_pretty(&v).unwrap()).expect("write replay");
                    println!("VIOLATION property=C03 replay={}", path.display());
                    exit = simcore::EXIT_VIOLATION;
                    reported += 1;
                }
            }
        }
    }

    // ---- evidence ----
    let wall = start.elapsed().as_secs_f64();
    let mut extra = serde_json::Map::new();
    if property == "C03" {
        extra.insert("miri_tier".into(), miri_json);
    }
    let nontrivial_runs = total.counters.get(plan.nontrivial_counter).copied().unwrap_or(0);
    let mut faults = serde_json::Map::new();
    let mut probes = serde_json::Map::new();
    let mut other = serde_json::Map::new();
    for (k, v) in &total.counters {
        if let Some(n) = k.strip_prefix("fault.") {
            faults.insert(n.to_string(), json!(v));
        } else if let Some(n) = k.strip_prefix("probe.") {
            probes.insert(n.to_string(), json!(v));
        } else {
            other.insert(k.clone(), json!(v));
        }
    }
    extra.insert("faults_fired".into(), Value::Object(faults));
    extra.insert("probes".into(), Value::Object(probes));
    extra.insert("counters".into(), Value::Object(other));
    extra.insert("nontrivial_runs_for_this_property".into(), json!(nontrivial_runs));
    extra.insert("runs_per_hour".into(), json!((total.runs_done as f64 / wall.max(0.001) * 3600.0) as u64));
    extra.insert("logical_steps".into(), json!(total.counters.get("logical_steps").copied().unwrap_or(0)));
    extra.insert("seeds".into(), json!(format!("VERIF_SEED={seed}; run i of scenario s uses derive_seed(VERIF_SEED ^ salt(s), i)")));
    extra.insert("violations_of_other_properties_seen".into(), json!(others));
    extra.insert("components_real".into(), json!(["pico::Storage (set/remove/remove_singleton/get/get_singleton/intern_value/intern_ref/run_garbage_collection)", "pico::execute_memoized_function", "pico_macros #[memo]/#[memo(raw)]/Db/Source/Singleton", "pico::{retain,clear_retain,RetainedQuery}", "pico::View/MutView tracked fields"]));
    extra.insert("components_stubbed".into(), json!(["memoized bodies are interpreters of a per-run program table (harness code)", "no compiler code runs in this engine"]));
    let ev = Evidence {
        property_id: property.clone(),
        tier: tier.clone(),
        seed,
        level: "exploration".into(),
        evaluations: total.runs_done,
        distinct_nontrivial: distinct,
        rule: plan.rule.to_string(),
        samples: total.samples.clone(),
        extra,
        assumptions: vec![
            "the harness obeys pico's documented contract (no SourceId use after removal, no cycles, retain only raw memo results, untracked map access only for keys that are never removed)".into(),
            "64-bit hash collisions between parameter / signature hashes do not occur in the explored key space".into(),
            "known findings listed in /verif/known_findings.json are excluded from open exploration by their generator constraints".into(),
        ],
        wall_s: wall,
        violations: reported,
    };
    ev.write(&root);
    println!(
        "sim_pico property={property} runs={} distinct_nontrivial={} wall={:.1}s exit={exit}",
        total.runs_done, distinct, wall
    );
    exit
}

fn selftest(args: &[String]) -> i32 {
    // determinism: every run executed twice in different worker processes at two worker
    // counts; per-run event-log hashes must agree pairwise
    let runs = arg_u64(args, "--runs", 2000);
    let exe = std::env::current_exe().unwrap();
    let mut bad = 0;
    for scenario in [Scenario::General, Scenario::Gc, Scenario::Twins] {
        let mut maps = Vec::new();
        for (workers, block) in [(1usize, runs), (16usize, 97)] {
            let cfg = BatchConfig {
                exe: exe.clone(),
                worker_args: vec![
                    "worker".into(),
                    "--scenario".into(),
                    scenario.name().into(),
                    "--base".into(),
                    "7".into(),
                    "--loghash".into(),
                ],
                total_runs: runs,
                block,
                workers,
                max_wall_s: 0.0,
                max_violations: usize::MAX,
                env: vec![],
            };
            maps.push(runner::run_batch(&cfg).loghashes);
        }
        let diff = maps[0]
            .iter()
            .filter(|(k, v)| maps[1].get(k) != Some(v))
            .count();
        println!(
            "selftest scenario={} runs={} compared={} mismatches={}",
            scenario.name(),
            runs,
            maps[0].len().min(maps[1].len()),
            diff
        );
        if diff > 0 || maps[0].len() != runs as usize || maps[1].len() != runs as usize {
            bad += 1;
        }
    }
    if bad > 0 {
        simcore::EXIT_HARNESS
    } else {
        simcore::EXIT_OK
    }
}

fn main() {
    let args: Vec<String> = std::env::args().collect();
    let cmd = args.get(1).map(|s| s.as_str()).unwrap_or("");
    let code = match cmd {
        "run" => run(&args),
        "worker" => {
            install_quiet_panic_hook();
            worker(&args, false);
            0
        }
        "miri-batch" => {
            install_quiet_panic_hook();
            worker(&args, true);
            0
        }
        "exec-json" => {
            install_quiet_panic_hook();
            exec_json();
            0
        }
        "miri-case" => {
            // one explicit case (argv, because Miri replays build-time env and has no stdin
            // guarantees); undefined behaviour makes Miri abort the process with an error
            install_quiet_panic_hook();
            let case: Case = serde_json::from_str(args.get(2).map(|s| s.as_str()).unwrap_or(""))
                .unwrap_or_else(|e| simcore::harness_error(&format!("miri-case: {e}")));
            let res = exec_case(&case);
            println!("{}", serde_json::to_string(&violations_of(&case, &res)).unwrap());
            0
        }
        "miri-prebuild" => {
            if sim_pico::miri_tier::prebuild() {
                0
            } else {
                simcore::EXIT_HARNESS
            }
        }
        "replay" => replay(args.get(2).map(|s| s.as_str()).unwrap_or("")),
        "selftest" => selftest(&args),
        _ => {
            eprintln!("usage: sim_pico run|worker|exec-json|replay|selftest|miri-batch ...");
            simcore::EXIT_HARNESS
        }
    };
    std::process::exit(code);
}
