//! Executes one case (explicit program + op list) against the real pico and the
//! model side by side.

use crate::bodies::{self, Env, Row};
use crate::model::{ModelEnv, ModelState, NKey, Tracker, Violation};
use crate::prog::{Case, Op};
use crate::real::{self, Ctx, Real, SimDb, CTX};
use pico::{Database, MemoRef, RetainedQuery};
use serde_json::{json, Value};
use std::rc::Rc;

pub struct Outcome {
    pub violations: Vec<Violation>,
    pub loghash: u64,
    pub counters: Vec<(&'static str, u64)>,
    pub nontrivial_c01: bool,
    pub nontrivial_c02: bool,
    pub nontrivial_c03: bool,
    pub nontrivial_c04: bool,
    pub steps: u64,
}

enum Stored {
    /// interned reference and the row it must read; `gen` is the model's generation
    /// of the interned node when the reference was obtained
    Interned {
        r: MemoRef<Row>,
        key: NKey,
        row: Row,
        gen: u64,
        /// for intern_ref: the owner `rows(n)` and its change count when obtained
        owner: Option<(u8, u64)>,
    },
    Raw {
        r: MemoRef<i64>,
        n: u8,
    },
}

struct Retained {
    guard: Option<RetainedQuery>,
    key: NKey,
}

impl Drop for Retained {
    fn drop(&mut self) {
        // a RetainedQuery panics when dropped uncleared; during an unwind that would abort
        if let Some(g) = self.guard.take() {
            g.never_garbage_collect();
        }
    }
}

fn model_eval<R>(st: &ModelState, case: &Case, f: impl FnOnce(&ModelEnv) -> R) -> R {
    f(&ModelEnv {
        st,
        p: &case.program,
    })
}

fn push_mismatch(t: &mut Tracker, property: &'static str, kind: &'static str, detail: String) {
    let op_index = t.op_index;
    t.violations.push(Violation {
        property,
        kind,
        detail,
        op_index,
    });
}

/// Runs the case. Panics from pico propagate to the caller (which records them).
pub fn run_case(case: &Case) -> Outcome {
    let program = Rc::new(case.program.clone());
    CTX.with(|c| {
        *c.borrow_mut() = Some(Ctx {
            program: program.clone(),
            tracker: Tracker::new(case.capacity.max(1)),
        })
    });
    let mut db = SimDb::new(case.capacity);
    let mut st = ModelState::default();
    let mut stored: Vec<Stored> = Vec::new();
    let mut retained: Vec<Retained> = Vec::new();
    let mut log: Vec<u8> = Vec::new();
    let n_nodes = case.program.nodes.len() as u8;
    let mut skipped = 0u64;
    let mut lookups_checked = 0u64;
    let mut lookups_skipped = 0u64;
    let mut calls = 0u64;
    let mut twin_calls = 0u64;
    let mut gc_with_lookup_after = 0u64;
    let mut equal_writes = 0u64;

    macro_rules! check_call {
        ($prop:expr, $key:expr, $got:expr, $want:expr) => {{
            calls += 1;
            let got: i64 = $got;
            let want: i64 = $want;
            log.extend_from_slice(&got.to_le_bytes());
            if got != want {
                real::with_tracker(|t| {
                    push_mismatch(
                        t,
                        $prop,
                        "stale-or-wrong-value",
                        format!("{:?} returned {} but a from-scratch evaluation gives {}", $key, got, want),
                    )
                });
            }
        }};
    }

    for (idx, op) in case.ops.iter().enumerate() {
        real::with_tracker(|t| {
            t.op_index = idx;
            if t.debug {
                eprintln!("op {idx}: {op:?}");
            }
        });
        log.push(idx as u8);
        match op {
            Op::Set(k, v) => {
                let is_new = !st.cells.contains_key(k);
                let changed = st.cells.get(k) != Some(v);
                st.cells.insert(*k, *v);
                real::set_cell(&mut db, *k, *v, is_new);
                real::with_tracker(|t| {
                    if changed {
                        t.bump_cell(*k);
                    } else {
                        t.probe_equal_write += 1;
                    }
                    if is_new {
                        t.counter_version += 1;
                    }
                });
                if !changed {
                    equal_writes += 1;
                }
            }
            Op::Remove(k) => {
                if !st.cells.contains_key(k) || case.program.stable_keys.contains(k) {
                    skipped += 1;
                    continue;
                }
                st.cells.remove(k);
                real::remove_cell(&mut db, *k);
                real::with_tracker(|t| {
                    t.bump_cell(*k);
                    t.counter_version += 1;
                });
            }
            Op::SetSingle(i, v) => {
                let i = (*i % 2) as usize;
                let changed = st.singles[i] != Some(*v);
                st.singles[i] = Some(*v);
                if i == 0 {
                    db.set(real::SingleA(*v));
                } else {
                    db.set(real::SingleB(*v));
                }
                real::with_tracker(|t| {
                    if changed {
                        t.single_version[i] += 1;
                    } else {
                        t.probe_equal_write += 1;
                    }
                });
                if !changed {
                    equal_writes += 1;
                }
            }
            Op::RemoveSingle(i) => {
                let i = (*i % 2) as usize;
                let present = st.singles[i].is_some();
                st.singles[i] = None;
                if i == 0 {
                    db.remove_singleton::<real::SingleA>();
                } else {
                    db.remove_singleton::<real::SingleB>();
                }
                if present {
                    real::with_tracker(|t| t.single_version[i] += 1);
                }
            }
            Op::TouchMap => {
                real::touch_map(&mut db);
                real::with_tracker(|t| t.counter_version += 1);
            }
            Op::TagSet(k, v) => {
                st.tags.insert(*k, *v);
                real::tag_set(&mut db, *k, *v);
                // every tracked mutable access bumps the field's counter (by design: readers of
                // a tracked field re-run after any tracked mutation)
                real::with_tracker(|t| t.tag_counter_version += 1);
            }
            Op::TagRemove(k) => {
                st.tags.remove(k);
                real::tag_remove(&mut db, *k);
                real::with_tracker(|t| t.tag_counter_version += 1);
            }
            Op::CallNode(n) => {
                let n = *n % n_nodes;
                let got = Real(&db).node(n);
                let want = model_eval(&st, case, |e| e.node(n));
                check_call!("C01", NKey::Node(n), got, want);
            }
            Op::CallLeaf(k) => {
                let Some(id) = real::cell_id(&db, *k) else {
                    skipped += 1;
                    continue;
                };
                let got = *real::top_call(NKey::Leaf(*k), || real::leaf(&db, id));
                let want = bodies::leaf_value(st.cells[k]);
                check_call!("C01", NKey::Leaf(*k), got, want);
            }
            Op::CallLeafRef(k) => {
                let Some(id) = real::cell_id(&db, *k) else {
                    skipped += 1;
                    continue;
                };
                let got = *real::top_call(NKey::LeafRef(*k), || real::leaf_ref(&db, &id));
                let want = bodies::leaf_ref_value(st.cells[k]);
                check_call!("C01", NKey::LeafRef(*k), got, want);
            }
            Op::CallOwned(s) => {
                let got = Real(&db).owned(*s);
                let want = model_eval(&st, case, |e| e.owned(*s));
                check_call!("C01", NKey::Owned(*s % 3), got, want);
            }
            Op::CallBorrowed(s) => {
                let got = Real(&db).borrowed(*s);
                let want = model_eval(&st, case, |e| e.borrowed(*s));
                check_call!("C01", NKey::Borrowed(*s % 3), got, want);
            }
            Op::CallRows(n) => {
                let n = *n % n_nodes;
                let got = Real(&db).rows(n).clone();
                let want = model_eval(&st, case, |e| bodies::rows_body(e, &case.program, n));
                calls += 1;
                for r in &got {
                    log.push(r.val as u8);
                }
                if got != want {
                    real::with_tracker(|t| {
                        push_mismatch(
                            t,
                            "C01",
                            "stale-or-wrong-value",
                            format!("rows({n}) returned {got:?} but a from-scratch evaluation gives {want:?}"),
                        )
                    });
                }
            }
            Op::CallPick(n, i) => {
                let n = *n % n_nodes;
                let r = Real(&db).pick(n, *i);
                let want = model_eval(&st, case, |e| {
                    let rows = bodies::rows_body(e, &case.program, n);
                    rows[bodies::row_index(rows.len(), *i)].clone()
                });
                // the reference is dereferenced only under the same constraint as `Lookup` (see
                // there): the value the documented algorithm points at must still be held
                let guard_key = NKey::IRef(want.clone());
                if !(case.lookup_stale_owner || real::with_tracker(|t| t.iref_pointee_alive(&guard_key))) {
                    lookups_skipped += 1;
                    continue;
                }
                let got = r.lookup(&db).clone();
                calls += 1;
                log.push(got.val as u8);
                if got != want {
                    real::with_tracker(|t| {
                        push_mismatch(
                            t,
                            "C01",
                            "stale-or-wrong-value",
                            format!("pick({n},{i}) reads {got:?} but a from-scratch evaluation gives {want:?}"),
                        )
                    });
                }
                let key = NKey::IRef(got.clone());
                let gen = real::with_tracker(|t| t.interned_alive(&key)).unwrap_or(u64::MAX);
                let owner_count = real::with_tracker(|t| {
                    t.recs.get(&NKey::Rows(n)).map(|r| r.change_count).unwrap_or(0)
                });
                stored.push(Stored::Interned {
                    r,
                    key,
                    row: got,
                    gen,
                    owner: Some((n, owner_count)),
                });
            }
            Op::CallUsePick(n, i) => {
                let n = *n % n_nodes;
                let got = Real(&db).use_pick(n, *i);
                let want = model_eval(&st, case, |e| e.use_pick(n, *i));
                check_call!("C01", NKey::UsePick(n, *i), got, want);
            }
            Op::CallBoxed(n) => {
                let n = *n % n_nodes;
                let r = Real(&db).boxed_ref(n);
                let want = model_eval(&st, case, |e| bodies::rows_body(e, &case.program, n)[0].clone());
                let got = r.lookup(&db).clone();
                calls += 1;
                log.push(got.val as u8);
                if got != want {
                    real::with_tracker(|t| {
                        push_mismatch(
                            t,
                            "C01",
                            "stale-or-wrong-value",
                            format!("boxed({n}) reads {got:?} but a from-scratch evaluation gives {want:?}"),
                        )
                    });
                }
                let key = NKey::IVal(got.clone());
                let gen = real::with_tracker(|t| t.interned_alive(&key)).unwrap_or(u64::MAX);
                stored.push(Stored::Interned {
                    r,
                    key,
                    row: got,
                    gen,
                    owner: None,
                });
            }
            Op::CallViaRef(n) => {
                let n = *n % n_nodes;
                let got = Real(&db).via_ref(n);
                let want = model_eval(&st, case, |e| e.via_ref(n));
                check_call!("C01", "via_ref", got, want);
            }
            Op::CallRaw(n) => {
                let n = *n % n_nodes;
                let r = real::top_call(NKey::Raw(n), || real::raw_node(&db, n));
                let got = *r.lookup(&db);
                let want = model_eval(&st, case, |e| e.node(n)).wrapping_add(1);
                check_call!("C01", NKey::Raw(n), got, want);
                stored.push(Stored::Raw { r, n });
            }
            Op::CallTwinA(k) => {
                twin_calls += 1;
                let got = *real::top_call(NKey::TwinA(*k), || real::twins_a::twin(&db, *k));
                let want = model_eval(&st, case, |e| bodies::twin_a_value(e, *k));
                check_call!("C04", NKey::TwinA(*k), got, want);
            }
            Op::CallTwinB(k) => {
                twin_calls += 1;
                let got = *real::top_call(NKey::TwinB(*k), || real::twins_b::twin(&db, *k));
                let want = model_eval(&st, case, |e| bodies::twin_b_value(e, *k));
                check_call!("C04", NKey::TwinB(*k), got, want);
            }
            Op::CallTwinC(k) => {
                twin_calls += 1;
                let got = *real::top_call(NKey::TwinC(*k), || real::twin_c(&db, *k));
                let want = model_eval(&st, case, |e| bodies::twin_c_value(e, *k));
                check_call!("C04", NKey::TwinC(*k), got, want);
            }
            Op::CallTwinD(k) => {
                twin_calls += 1;
                let got = *real::top_call(NKey::TwinD(*k), || real::twin_d(&db, *k));
                let want = model_eval(&st, case, |e| bodies::twin_d_value(e, *k));
                check_call!("C04", NKey::TwinD(*k), got, want);
            }
            Op::CallTwinX(shape, k) => {
                twin_calls += 1;
                let shape = *shape % 10;
                let got = real::top_call(NKey::TwinX(shape, *k), || real::twin_x(&db, shape, *k));
                let want = model_eval(&st, case, |e| bodies::twin_x_value(e, shape, *k));
                check_call!("C04", NKey::TwinX(shape, *k), got, want);
            }
            Op::InternTop(v) => {
                let row = Row {
                    owner: 255,
                    val: *v,
                };
                let r = db.intern_value(row.clone());
                let key = NKey::IVal(row.clone());
                real::with_tracker(|t| t.interned(key.clone()));
                let gen = real::with_tracker(|t| t.interned_alive(&key)).unwrap_or(u64::MAX);
                stored.push(Stored::Interned {
                    r,
                    key,
                    row,
                    gen,
                    owner: None,
                });
            }
            Op::Lookup(slot) => {
                if stored.is_empty() {
                    skipped += 1;
                    continue;
                }
                let s = &stored[*slot as usize % stored.len()];
                match s {
                    Stored::Interned {
                        r,
                        key,
                        row,
                        gen,
                        owner,
                    } => {
                        let alive = real::with_tracker(|t| t.interned_alive(key)) == Some(*gen);
                        // Generator constraint of the two known intern_ref findings (two-owners and
                        // stale-owner): a stored intern_ref reference is only read while the value
                        // that the DOCUMENTED algorithm makes it point into is still held by its
                        // owner (the model replays that algorithm: new node -> caller's value;
                        // existing node -> re-pointed unless already verified in this epoch). A
                        // pointer that the real code failed to re-point although the algorithm
                        // says it must is therefore still detected.
                        let owner_ok = match owner {
                            _ if case.lookup_stale_owner => true,
                            None => true,
                            Some(_) => real::with_tracker(|t| t.iref_pointee_alive(key)),
                        };
                        if !(alive && owner_ok) {
                            lookups_skipped += 1;
                            continue;
                        }
                        let got = r.lookup(&db);
                        lookups_checked += 1;
                        if real::with_tracker(|t| t.gc_count) > 0 {
                            gc_with_lookup_after += 1;
                        }
                        log.push(got.val as u8);
                        if got != row {
                            let d = format!(
                                "stored reference {key:?} reads {got:?}, original value {row:?}"
                            );
                            real::with_tracker(|t| {
                                push_mismatch(t, "C03", "reference-reads-different-value", d)
                            });
                        }
                    }
                    Stored::Raw { r, n } => {
                        let rec = real::with_tracker(|t| {
                            t.recs
                                .get(&NKey::Raw(*n))
                                .filter(|r| r.must_cached && r.has_value)
                                .map(|r| r.last_val)
                        });
                        let Some(want) = rec else {
                            lookups_skipped += 1;
                            continue;
                        };
                        let got = *r.lookup(&db);
                        lookups_checked += 1;
                        log.extend_from_slice(&got.to_le_bytes());
                        if got != want {
                            let d = format!(
                                "stored raw_node({n}) reference reads {got}, its cached result is {want}"
                            );
                            real::with_tracker(|t| {
                                push_mismatch(t, "C03", "reference-reads-different-value", d)
                            });
                        }
                    }
                }
            }
            Op::Retain(n) => {
                let n = *n % n_nodes;
                let r = real::top_call(NKey::Raw(n), || real::raw_node(&db, n));
                let guard = pico::retain(&db, r);
                real::with_tracker(|t| t.retained.push(NKey::Raw(n)));
                retained.push(Retained {
                    guard: Some(guard),
                    key: NKey::Raw(n),
                });
            }
            Op::ClearRetain(slot) => {
                let live: Vec<usize> = retained
                    .iter()
                    .enumerate()
                    .filter(|(_, r)| r.guard.is_some())
                    .map(|(i, _)| i)
                    .collect();
                if live.is_empty() {
                    skipped += 1;
                    continue;
                }
                let i = live[*slot as usize % live.len()];
                let guard = retained[i].guard.take().unwrap();
                pico::clear_retain(&db, guard);
                let key = retained[i].key.clone();
                real::with_tracker(|t| {
                    if let Some(pos) = t.retained.iter().position(|k| *k == key) {
                        t.retained.remove(pos);
                    }
                });
            }
            Op::NeverGc(slot) => {
                let live: Vec<usize> = retained
                    .iter()
                    .enumerate()
                    .filter(|(_, r)| r.guard.is_some())
                    .map(|(i, _)| i)
                    .collect();
                if live.is_empty() {
                    skipped += 1;
                    continue;
                }
                let i = live[*slot as usize % live.len()];
                // stays in the model's retained multiset for ever
                retained[i].guard.take().unwrap().never_garbage_collect();
            }
            Op::Gc => {
                db.run_garbage_collection();
                real::with_tracker(|t| t.gc());
            }
        }
    }
    for r in retained.iter_mut() {
        if let Some(g) = r.guard.take() {
            g.never_garbage_collect();
        }
    }
    drop(db);
    let ctx = CTX.with(|c| c.borrow_mut().take()).expect("ctx");
    let t = ctx.tracker;
    if !cfg!(miri) {
        // (formatting is very slow under the interpreter; the Miri tier does not compare logs)
        for (k, v) in &t.exec_log {
            log.extend_from_slice(format!("{k:?}={v};").as_bytes());
        }
    }
    let counters = vec![
        ("ops_skipped_by_contract", skipped),
        ("top_level_calls", calls),
        ("lookups_checked", lookups_checked),
        ("lookups_skipped_not_alive", lookups_skipped),
        ("lookups_after_gc", gc_with_lookup_after),
        ("body_executions", t.exec_log.len() as u64),
        ("probe.cache_hit", t.probe_cache_hits),
        ("probe.reexecuted_while_cached", t.probe_reexec_after_write),
        ("probe.backdated_equal_value", t.probe_backdated),
        ("probe.equal_value_write", t.probe_equal_write),
        ("probe.executed_after_gc_discard", t.probe_exec_after_gc_discard),
        ("probe.nodes_kept_by_gc", t.probe_kept_by_gc),
        ("probe.nodes_discarded_by_gc", t.probe_discarded_by_gc),
        ("fault.gc", t.gc_count as u64),
        ("twin_calls", twin_calls),
    ];
    Outcome {
        nontrivial_c01: t.probe_cache_hits > 0 && t.probe_reexec_after_write > 0,
        nontrivial_c02: equal_writes > 0 && t.probe_backdated > 0,
        nontrivial_c03: t.gc_count > 0 && t.probe_kept_by_gc > 0 && t.probe_discarded_by_gc > 0,
        nontrivial_c04: twin_calls >= 2,
        violations: t.violations,
        loghash: simcore::fnv1a(&log),
        counters,
        steps: case.ops.len() as u64,
    }
}

pub fn violation_json(index: u64, seed: u64, scenario: &str, case: &Case, v: &Violation) -> Value {
    json!({
        "engine": "sim_pico",
        "scenario": scenario,
        "index": index,
        "seed": seed,
        "property": v.property,
        "kind": v.kind,
        "detail": v.detail,
        "op_index": v.op_index,
        "case": case,
    })
}
