//! Reference model: the sources as plain maps, a direct evaluator, and the
//! tracker that decides which body executions are licensed (C02), which nodes a
//! garbage collection must keep (C03), and which stored references are alive.

use crate::bodies::{self, Env, Row};
use crate::prog::Program;
use std::collections::{BTreeMap, BTreeSet};

#[derive(Default, Clone, Debug)]
pub struct ModelState {
    pub cells: BTreeMap<u8, i64>,
    pub singles: [Option<i64>; 2],
    pub tags: BTreeMap<u8, i64>,
}

pub struct ModelEnv<'a> {
    pub st: &'a ModelState,
    pub p: &'a Program,
}

impl Env for ModelEnv<'_> {
    fn cell(&self, k: u8) -> Option<i64> {
        self.st.cells.get(&k).copied()
    }
    fn cell_u(&self, k: u8) -> Option<i64> {
        self.st.cells.get(&k).copied()
    }
    fn single(&self, i: u8) -> Option<i64> {
        self.st.singles[i as usize % 2]
    }
    fn node(&self, m: u8) -> i64 {
        bodies::node_body(self, self.p, m)
    }
    fn iter_map(&self) -> i64 {
        self.st
            .cells
            .iter()
            .fold(0i64, |acc, (k, v)| acc.wrapping_mul(7).wrapping_add(*k as i64 * 5 + *v))
    }
    fn leaf(&self, k: u8) -> Option<i64> {
        self.st.cells.get(&k).map(|v| bodies::leaf_value(*v))
    }
    fn leaf_u(&self, k: u8) -> Option<i64> {
        self.st.cells.get(&k).map(|v| bodies::leaf_ref_value(*v))
    }
    fn owned(&self, s: u8) -> i64 {
        bodies::owned_value(self, s)
    }
    fn borrowed(&self, s: u8) -> i64 {
        bodies::borrowed_value(self, s)
    }
    fn use_pick(&self, m: u8, i: u8) -> i64 {
        let rows = bodies::rows_body(self, self.p, m);
        bodies::use_pick_value(&rows[bodies::row_index(rows.len(), i)], i)
    }
    fn boxed(&self, m: u8) -> i64 {
        bodies::boxed_value(&bodies::rows_body(self, self.p, m)[0])
    }
    fn via_ref(&self, m: u8) -> i64 {
        bodies::via_ref_value(&bodies::rows_body(self, self.p, m)[0])
    }
    fn tags(&self) -> i64 {
        self.st
            .tags
            .iter()
            .fold(3i64, |acc, (k, v)| acc.wrapping_mul(11).wrapping_add(*k as i64 * 3 + *v))
    }
    fn tag(&self, k: u8) -> Option<i64> {
        self.st.tags.get(&k).copied()
    }
}

/// Identity of a derived node, as the model names it.
#[derive(Clone, Debug, PartialEq, Eq, Hash, PartialOrd, Ord)]
pub enum NKey {
    Node(u8),
    Leaf(u8),
    LeafRef(u8),
    Owned(u8),
    Borrowed(u8),
    Rows(u8),
    Pick(u8, u8),
    UsePick(u8, u8),
    Boxed(u8),
    ViaRef(Row),
    Raw(u8),
    TwinA(u8),
    TwinB(u8),
    TwinC(u8),
    TwinD(u8),
    TwinX(u8, u8),
    /// node created by intern_value
    IVal(Row),
    /// node created by intern_ref
    IRef(Row),
}

impl NKey {
    pub fn is_interned(&self) -> bool {
        matches!(self, NKey::IVal(_) | NKey::IRef(_))
    }
}

#[derive(Clone, Debug, PartialEq, Eq, Hash, PartialOrd, Ord)]
pub enum Dep {
    Cell(u8),
    Single(u8),
    Counter,
    /// the counter of the second tracked field
    TagCounter,
    D(NKey),
}

#[derive(Default, Clone, Debug)]
pub struct NodeRec {
    /// the model says pico must still hold this node's result
    pub must_cached: bool,
    pub has_value: bool,
    pub last_val: i64,
    pub last_reads: Vec<(Dep, u64)>,
    /// incremented whenever an execution produced a value different from the cached one
    /// (first executions and executions after a discard count as different); for interned
    /// nodes: incremented when the model discards the node
    pub change_count: u64,
    pub gc_since_exec: bool,
    pub exec_count: u32,
    /// interned nodes only: currently present according to the model
    pub alive: bool,
    /// intern_ref nodes only: the epoch signature at which the documented algorithm last
    /// verified / re-pointed the node
    pub iref_verified_epoch: u64,
    /// intern_ref nodes only: where the documented algorithm says the pointer points: the
    /// value of `rows(owner)` that had this change count
    pub iref_pointee: Option<(u8, u64)>,
}

#[derive(Clone, Debug)]
pub struct Violation {
    pub property: &'static str,
    pub kind: &'static str,
    pub detail: String,
    pub op_index: usize,
}

struct Frame {
    key: NKey,
    reads: Vec<(Dep, u64)>,
}

#[derive(Default)]
pub struct Tracker {
    pub recs: BTreeMap<NKey, NodeRec>,
    pub cell_version: BTreeMap<u8, u64>,
    pub single_version: [u64; 2],
    pub counter_version: u64,
    pub tag_counter_version: u64,
    frames: Vec<Frame>,
    pub violations: Vec<Violation>,
    pub op_index: usize,
    pub debug: bool,
    /// top-level calls since the last collection, in call order
    pub top_calls: Vec<NKey>,
    /// model of the LRU, most recent first
    pub lru: Vec<NKey>,
    pub capacity: usize,
    /// retained keys (multiset)
    pub retained: Vec<NKey>,
    /// execution log of the run: (key, value) in completion order
    pub exec_log: Vec<(NKey, i64)>,
    pub gc_count: u32,
    // probes
    pub probe_cache_hits: u64,
    pub probe_reexec_after_write: u64,
    pub probe_backdated: u64,
    pub probe_equal_write: u64,
    pub probe_exec_after_gc_discard: u64,
    pub probe_kept_by_gc: u64,
    pub probe_discarded_by_gc: u64,
}

impl Tracker {
    pub fn new(capacity: usize) -> Self {
        Tracker {
            capacity,
            debug: std::env::var("SIM_DEBUG").is_ok(),
            ..Default::default()
        }
    }

    fn stamp(&self, d: &Dep) -> u64 {
        match d {
            Dep::Cell(k) => self.cell_version.get(k).copied().unwrap_or(0),
            Dep::Single(i) => self.single_version[*i as usize % 2],
            Dep::Counter => self.counter_version,
            Dep::TagCounter => self.tag_counter_version,
            Dep::D(k) => self.recs.get(k).map(|r| r.change_count).unwrap_or(u64::MAX),
        }
    }

    pub fn in_body(&self) -> bool {
        !self.frames.is_empty()
    }

    /// a read made by the body that is currently executing (no-op at top level)
    pub fn read(&mut self, d: Dep) {
        if self.frames.is_empty() {
            return;
        }
        let st = self.stamp(&d);
        self.frames.last_mut().unwrap().reads.push((d, st));
    }

    /// a memoized call is being made (before pico decides anything)
    pub fn call(&mut self, key: &NKey) {
        if self.frames.is_empty() {
            self.top_calls.push(key.clone());
        }
    }

    pub fn enter(&mut self, key: NKey) {
        if self.debug {
            eprintln!("    enter {key:?} (depth {})", self.frames.len());
        }
        let (must, licensed, gc_since) = match self.recs.get(&key) {
            Some(rec) if rec.must_cached => {
                let lic = rec.last_reads.iter().any(|(d, st)| self.stamp(d) != *st);
                (true, lic, rec.gc_since_exec)
            }
            Some(_) => (false, true, false),
            None => (false, true, false),
        };
        if must && !licensed {
            let (property, kind) = if gc_since {
                ("C03", "retained-result-reexecuted-after-gc")
            } else {
                ("C02", "reexecuted-though-nothing-read-changed")
            };
            let detail = format!(
                "{:?} executed again; previous reads {:?} all unchanged",
                key,
                self.recs[&key]
                    .last_reads
                    .iter()
                    .map(|(d, _)| d.clone())
                    .collect::<Vec<_>>()
            );
            self.violations.push(Violation {
                property,
                kind,
                detail,
                op_index: self.op_index,
            });
        }
        if let Some(rec) = self.recs.get(&key) {
            if rec.exec_count > 0 {
                if rec.must_cached {
                    self.probe_reexec_after_write += 1;
                } else {
                    self.probe_exec_after_gc_discard += 1;
                }
            }
        }
        self.frames.push(Frame {
            key,
            reads: Vec::new(),
        });
    }

    pub fn exit(&mut self, key: &NKey, val: i64) {
        let f = self.frames.pop().expect("frame");
        assert!(&f.key == key, "harness: frame mismatch");
        let rec = self.recs.entry(key.clone()).or_default();
        let changed = !rec.has_value || rec.last_val != val;
        if changed {
            rec.change_count += 1;
        } else {
            self.probe_backdated += 1;
        }
        rec.has_value = true;
        rec.last_val = val;
        rec.last_reads = f.reads;
        rec.must_cached = true;
        rec.gc_since_exec = false;
        rec.exec_count += 1;
        self.exec_log.push((key.clone(), val));
    }

    /// the body that is executing (or the top level) used a memoized call's result
    pub fn used(&mut self, key: &NKey, executed: bool) {
        if !executed {
            self.probe_cache_hits += 1;
        }
        self.read(Dep::D(key.clone()));
    }

    /// intern_value / intern_ref was called for this row
    pub fn interned(&mut self, key: NKey) {
        let rec = self.recs.entry(key.clone()).or_default();
        rec.alive = true;
        rec.must_cached = true;
        self.read(Dep::D(key));
    }

    /// A signature of pico's epoch: it changes exactly when some source change advances the
    /// epoch (equal-value writes change neither).
    pub fn epoch_sig(&self) -> u64 {
        self.cell_version.values().sum::<u64>() + self.single_version[0] + self.single_version[1] + self.counter_version + self.tag_counter_version
    }

    /// `intern_ref(&rows(owner)[i])` was called. Mirrors the documented algorithm of
    /// `intern_ref`: a new node points at the caller's value; an existing node is re-pointed
    /// to the caller's value unless it was already verified in the current epoch.
    pub fn interned_ref(&mut self, key: NKey, owner: u8) {
        let epoch = self.epoch_sig();
        let owner_cc = self.recs.get(&NKey::Rows(owner)).map(|r| r.change_count).unwrap_or(0);
        let rec = self.recs.entry(key.clone()).or_default();
        if !rec.alive {
            rec.alive = true;
            rec.iref_pointee = Some((owner, owner_cc));
            rec.iref_verified_epoch = epoch;
        } else if rec.iref_verified_epoch != epoch {
            rec.iref_pointee = Some((owner, owner_cc));
            rec.iref_verified_epoch = epoch;
        }
        rec.must_cached = true;
        self.read(Dep::D(key));
    }

    /// The value an intern_ref node points into (per the documented algorithm) is still held
    /// by its owner: `rows(owner)` is cached and has not produced another value since.
    pub fn iref_pointee_alive(&self, key: &NKey) -> bool {
        let Some(rec) = self.recs.get(key) else { return false };
        let Some((owner, cc)) = rec.iref_pointee else { return false };
        rec.alive
            && self
                .recs
                .get(&NKey::Rows(owner))
                .map(|r| r.must_cached && r.has_value && r.change_count == cc)
                .unwrap_or(false)
    }

    pub fn interned_alive(&self, key: &NKey) -> Option<u64> {
        self.recs
            .get(key)
            .filter(|r| r.alive)
            .map(|r| r.change_count)
    }

    pub fn gc(&mut self) {
        self.gc_count += 1;
        for k in std::mem::take(&mut self.top_calls) {
            if let Some(pos) = self.lru.iter().position(|x| *x == k) {
                self.lru.remove(pos);
            }
            self.lru.insert(0, k);
            if self.lru.len() > self.capacity {
                self.lru.pop();
            }
        }
        let mut keep: BTreeSet<NKey> = BTreeSet::new();
        let mut queue: Vec<NKey> = self.lru.iter().cloned().collect();
        queue.extend(self.retained.iter().cloned());
        while let Some(k) = queue.pop() {
            if !keep.insert(k.clone()) {
                continue;
            }
            if let Some(rec) = self.recs.get(&k) {
                for (d, _) in &rec.last_reads {
                    if let Dep::D(dk) = d {
                        queue.push(dk.clone());
                    }
                }
            }
            // a MemoRef parameter names an interned node but is not a dependency by itself
        }
        for (k, rec) in self.recs.iter_mut() {
            if keep.contains(k) {
                rec.gc_since_exec = true;
                self.probe_kept_by_gc += 1;
            } else {
                if rec.must_cached || rec.alive {
                    self.probe_discarded_by_gc += 1;
                }
                rec.must_cached = false;
                rec.has_value = false;
                if k.is_interned() && rec.alive {
                    rec.alive = false;
                    rec.change_count += 1;
                }
            }
        }
    }

    pub fn bump_cell(&mut self, k: u8) {
        *self.cell_version.entry(k).or_insert(0) += 1;
    }
}
