//! The bodies of the memoized functions, written once, generic over the
//! environment that answers their reads. `Real` (real.rs) answers through pico;
//! `ModelEnv` (model.rs) answers by direct recursion on the model's sources —
//! "the same body evaluated without pico".

use crate::prog::{Atom, Program, Read, ABSENT, NAMES};

#[derive(Clone, Debug, PartialEq, Eq, Hash, PartialOrd, Ord)]
pub struct Row {
    pub owner: u8,
    pub val: i64,
}

/// Dropping a row overwrites it first, so that a native (non-Miri) read through a
/// dangling `intern_ref` pointer is likely to see a value that differs from the
/// original instead of the stale bytes. This is only a detector aid: the verdict
/// on undefined behaviour comes from the Miri tier.
impl Drop for Row {
    fn drop(&mut self) {
        // SAFETY: plain writes to fields of a live `&mut self`
        unsafe {
            std::ptr::write_volatile(&mut self.val, -0x0DEAD);
            std::ptr::write_volatile(&mut self.owner, 0xEE);
        }
    }
}

pub trait Env {
    fn cell(&self, k: u8) -> Option<i64>;
    fn cell_u(&self, k: u8) -> Option<i64>;
    fn single(&self, i: u8) -> Option<i64>;
    fn node(&self, m: u8) -> i64;
    fn iter_map(&self) -> i64;
    fn leaf(&self, k: u8) -> Option<i64>;
    fn leaf_u(&self, k: u8) -> Option<i64>;
    fn owned(&self, s: u8) -> i64;
    fn borrowed(&self, s: u8) -> i64;
    fn use_pick(&self, m: u8, i: u8) -> i64;
    fn boxed(&self, m: u8) -> i64;
    fn via_ref(&self, m: u8) -> i64;
    fn tags(&self) -> i64;
    fn tag(&self, k: u8) -> Option<i64>;
}

pub fn atom<E: Env>(e: &E, a: &Atom) -> i64 {
    match a {
        Atom::Cell(k) => e.cell(*k).unwrap_or(ABSENT),
        Atom::CellU(k) => e.cell_u(*k).unwrap_or(ABSENT),
        Atom::Single(i) => e.single(*i).unwrap_or(ABSENT),
        Atom::Node(m) => e.node(*m),
        Atom::IterMap => e.iter_map(),
        Atom::Leaf(k) => e.leaf(*k).unwrap_or(ABSENT),
        Atom::LeafU(k) => e.leaf_u(*k).unwrap_or(ABSENT),
        Atom::Owned(s) => e.owned(*s),
        Atom::Borrowed(s) => e.borrowed(*s),
        Atom::UsePick(m, i) => e.use_pick(*m, *i),
        Atom::Boxed(m) => e.boxed(*m),
        Atom::ViaRef(m) => e.via_ref(*m),
        Atom::Tags => e.tags(),
        Atom::Tag(k) => e.tag(*k).unwrap_or(ABSENT),
    }
}

pub fn read<E: Env>(e: &E, r: &Read) -> i64 {
    match r {
        Read::A(a) => atom(e, a),
        Read::Cond(t, a, b) => {
            if atom(e, t) & 1 == 1 {
                atom(e, a)
            } else {
                atom(e, b)
            }
        }
    }
}

pub fn node_body<E: Env>(e: &E, p: &Program, n: u8) -> i64 {
    let def = &p.nodes[n as usize];
    let mut acc: i64 = 17;
    for r in &def.reads {
        acc = acc.wrapping_mul(31).wrapping_add(read(e, r));
    }
    ((acc >> def.shift) % def.modulo).abs()
}

pub fn rows_body<E: Env>(e: &E, p: &Program, n: u8) -> Vec<Row> {
    let def = &p.nodes[n as usize];
    let owner = if p.row_owner_tag { n } else { 0 };
    def.reads
        .iter()
        .map(|r| Row {
            owner,
            val: read(e, r).rem_euclid(3),
        })
        .collect()
}

pub fn leaf_value(v: i64) -> i64 {
    v / 2
}
pub fn leaf_ref_value(v: i64) -> i64 {
    v % 2
}
pub fn owned_value<E: Env>(e: &E, s: u8) -> i64 {
    e.single(s % 2).unwrap_or(ABSENT) * 2 + NAMES[s as usize % 3].len() as i64
}
pub fn borrowed_value<E: Env>(e: &E, s: u8) -> i64 {
    e.single((s + 1) % 2).unwrap_or(ABSENT) * 3 + NAMES[s as usize % 3].len() as i64
}
pub fn use_pick_value(row: &Row, i: u8) -> i64 {
    row.val * 2 + i as i64
}
pub fn boxed_value(row: &Row) -> i64 {
    row.val + 100
}
pub fn via_ref_value(row: &Row) -> i64 {
    row.val + 1000
}
pub fn row_index(len: usize, i: u8) -> usize {
    i as usize % len
}

/// twins: identical signatures, different bodies (see real.rs)
pub fn twin_a_value<E: Env>(e: &E, k: u8) -> i64 {
    e.single(0).unwrap_or(ABSENT) * 10 + k as i64
}
pub fn twin_b_value<E: Env>(e: &E, k: u8) -> i64 {
    e.single(1).unwrap_or(ABSENT) * 10 + k as i64 + 5000
}
pub fn twin_c_value<E: Env>(e: &E, k: u8) -> i64 {
    e.single(0).unwrap_or(ABSENT) + k as i64 + 70_000
}
pub fn twin_d_value<E: Env>(e: &E, k: u8) -> i64 {
    e.single(1).unwrap_or(ABSENT) + k as i64 + 90_000
}
pub fn twin_x_value<E: Env>(e: &E, shape: u8, k: u8) -> i64 {
    e.single(shape % 2).unwrap_or(ABSENT) * 7 + k as i64 + 100_000 * (shape as i64 % 10 + 2)
}
