//! One of two copy-pasted modules (twins/p.rs, twins/q.rs): module paths of equal length that
//! differ in the middle (`twins_p::x` / `twins_q::x`). Keep both files line-for-line parallel.
pub mod x {
    use crate::real::{twin_x_body, SimDb};
    use pico_macros::memo;

    #[memo]
    pub fn twin(db: &SimDb, k: u8) -> i64 {
        twin_x_body(db, 5, k)
    }
}
