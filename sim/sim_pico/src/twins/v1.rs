//! Layout-sensitive twin (see real.rs): do not reformat; the `#[memo]` attribute must stay on
//! the line that `MEMO_LINE` computes and at column 1.
use crate::real::{twin_x_body, SimDb};
use pico_macros::memo;
//
//
//
//
//
//
//
//
//
//
//
//
//
pub const MEMO_LINE: u32 = line!() + 1;
#[memo]
pub fn twin(db: &SimDb, k: u8) -> i64 {
    twin_x_body(db, 3, k)
}
