//! Layout-sensitive twins (see real.rs): do not reformat. Two functions with token-identical
//! signatures in ONE module (a free function and a function-local item), whose `#[memo]`
//! attributes sit at (line 12, column 1) and (line 8, column 5): 12 ^ 1 == 8 ^ 5 and
//! 12 + 1 == 8 + 5, so any key that mixes line and column commutatively confuses them.
use crate::real::{twin_x_body, SimDb};
use pico_macros::memo;
pub fn local_twin(db: &SimDb, k: u8) -> i64 {
    #[memo]
    fn twin(db: &SimDb, k: u8) -> i64 { twin_x_body(db, 9, k) }
    *twin(db, k)
}
#[memo]
pub fn twin(db: &SimDb, k: u8) -> i64 { twin_x_body(db, 8, k) }
pub const LOCAL_MEMO_LINE: u32 = 8;
pub const FREE_MEMO_LINE: u32 = 12;
