//! One of two copy-pasted modules (see real.rs). Keep both files line-for-line parallel.
use crate::bodies;
use crate::model::NKey;
use crate::real::{with_tracker, Real, SimDb};
use pico_macros::memo;

#[memo]
pub fn twin(db: &SimDb, k: u8) -> i64 {
    let key = NKey::TwinA(k);
    with_tracker(|t| t.enter(key.clone()));
    let v = bodies::twin_a_value(&Real(db), k);
    with_tracker(|t| t.exit(&key, v));
    v
}
