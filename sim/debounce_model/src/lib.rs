//! Vendored from notify-debouncer-full 0.4.0 (MIT OR Apache-2.0, (c) Daniel Faust and
//! contributors; see LICENSE-MIT): the event-queue logic of the debouncer
//! (`Queue`, `DebounceDataInner`, `sort_events`) and the `NoCache` file-id cache that
//! notify-debouncer-full uses on Linux.
//!
//! Changes against the upstream source, all mechanical:
//!   * `time::now()` reads the simulator's clock (`set_now_micros`) instead of `Instant::now()`;
//!   * `DebounceDataInner`, its constructor and `roots` are `pub` (upstream: `pub(crate)`),
//!     because the thread / watcher shell around it (`Debouncer`, `new_debouncer_opt`) is
//!     what the simulator replaces;
//!   * everything else of the crate (watcher set-up, the tick thread, FileIdMap, tests) is
//!     left out.
//!
//! The code between the BEGIN/END markers is byte-identical to upstream lines.

use std::{
    cmp::Reverse,
    collections::{BinaryHeap, HashMap, VecDeque},
    path::{Path, PathBuf},
    time::{Duration, Instant},
};

use file_id::FileId;
use notify::{
    event::{ModifyKind, RemoveKind, RenameMode},
    Error, Event, EventKind, RecursiveMode,
};
pub use notify_types::debouncer_full::DebouncedEvent;

pub mod time {
    //! Simulated clock: an opaque origin captured once plus simulated microseconds. Only
    //! differences of `Instant`s are ever used, so the origin decides nothing.
    use std::cell::Cell;
    use std::time::{Duration, Instant};

    thread_local! {
        static ORIGIN: Instant = Instant::now();
        static NOW_MICROS: Cell<u64> = const { Cell::new(0) };
    }

    pub fn set_now_micros(t: u64) {
        NOW_MICROS.with(|n| n.set(t));
    }

    pub fn now_micros() -> u64 {
        NOW_MICROS.with(|n| n.get())
    }

    pub fn now() -> Instant {
        ORIGIN.with(|o| *o) + Duration::from_micros(now_micros())
    }
}

use time::now;

pub trait FileIdCache {
    fn cached_file_id(&self, path: &Path) -> Option<&FileId>;

    fn add_path(&mut self, path: &Path, recursive_mode: RecursiveMode);

    fn remove_path(&mut self, path: &Path);

    fn rescan(&mut self, roots: &[(PathBuf, RecursiveMode)]) {
        for (root, recursive_mode) in roots {
            self.add_path(root, *recursive_mode);
        }
    }
}

#[derive(Debug, Clone, Default)]
pub struct NoCache;

impl FileIdCache for NoCache {
    fn cached_file_id(&self, _path: &Path) -> Option<&FileId> {
        None
    }

    fn add_path(&mut self, _path: &Path, _recursive_mode: RecursiveMode) {}

    fn remove_path(&mut self, _path: &Path) {}
}

// ---- BEGIN upstream notify-debouncer-full 0.4.0 src/lib.rs (Queue, DebounceDataInner) ----
#[derive(Debug, Clone, Default, PartialEq, Eq)]
struct Queue {
    /// Events must be stored in the following order:
    /// 1. `remove` or `move out` event
    /// 2. `rename` event
    /// 3. Other events
    events: VecDeque<DebouncedEvent>,
}

impl Queue {
    fn was_created(&self) -> bool {
        self.events.front().map_or(false, |event| {
            matches!(
                event.kind,
                EventKind::Create(_) | EventKind::Modify(ModifyKind::Name(RenameMode::To))
            )
        })
    }

    fn was_removed(&self) -> bool {
        self.events.front().map_or(false, |event| {
            matches!(
                event.kind,
                EventKind::Remove(_) | EventKind::Modify(ModifyKind::Name(RenameMode::From))
            )
        })
    }
}

#[derive(Debug)]
pub struct DebounceDataInner<T> {
    queues: HashMap<PathBuf, Queue>,
    pub roots: Vec<(PathBuf, RecursiveMode)>,
    cache: T,
    rename_event: Option<(DebouncedEvent, Option<FileId>)>,
    rescan_event: Option<DebouncedEvent>,
    errors: Vec<Error>,
    timeout: Duration,
}

impl<T: FileIdCache> DebounceDataInner<T> {
    pub fn new(cache: T, timeout: Duration) -> Self {
        Self {
            queues: HashMap::new(),
            roots: Vec::new(),
            cache,
            rename_event: None,
            rescan_event: None,
            errors: Vec::new(),
            timeout,
        }
    }

    /// Retrieve a vec of debounced events, removing them if not continuous
    pub fn debounced_events(&mut self) -> Vec<DebouncedEvent> {
        let now = now();
        let mut events_expired = Vec::with_capacity(self.queues.len());
        let mut queues_remaining = HashMap::with_capacity(self.queues.len());

        if let Some(event) = self.rescan_event.take() {
            if now.saturating_duration_since(event.time) >= self.timeout {
                log::trace!("debounced event: {event:?}");
                events_expired.push(event);
            } else {
                self.rescan_event = Some(event);
            }
        }

        // drain the entire queue, then process the expired events and re-add the rest
        // TODO: perfect fit for drain_filter https://github.com/rust-lang/rust/issues/59618
        for (path, mut queue) in self.queues.drain() {
            let mut kind_index = HashMap::new();

            while let Some(event) = queue.events.pop_front() {
                if now.saturating_duration_since(event.time) >= self.timeout {
                    // remove previous event of the same kind
                    if let Some(idx) = kind_index.get(&event.kind).copied() {
                        events_expired.remove(idx);

                        kind_index.values_mut().for_each(|i| {
                            if *i > idx {
                                *i -= 1
                            }
                        })
                    }

                    kind_index.insert(event.kind, events_expired.len());

                    events_expired.push(event);
                } else {
                    queue.events.push_front(event);
                    break;
                }
            }

            if !queue.events.is_empty() {
                queues_remaining.insert(path, queue);
            }
        }

        self.queues = queues_remaining;

        sort_events(events_expired)
    }

    /// Returns all currently stored errors
    pub fn errors(&mut self) -> Vec<Error> {
        std::mem::take(&mut self.errors)
    }

    /// Add an error entry to re-send later on
    pub fn add_error(&mut self, error: Error) {
        log::trace!("raw error: {error:?}");

        self.errors.push(error);
    }

    /// Add new event to debouncer cache
    pub fn add_event(&mut self, event: Event) {
        log::trace!("raw event: {event:?}");

        if event.need_rescan() {
            self.cache.rescan(&self.roots);
            self.rescan_event = Some(DebouncedEvent { event, time: now() });
            return;
        }

        let path = &event.paths[0];

        match &event.kind {
            EventKind::Create(_) => {
                let recursive_mode = self.recursive_mode(path);

                self.cache.add_path(path, recursive_mode);

                self.push_event(event, now());
            }
            EventKind::Modify(ModifyKind::Name(rename_mode)) => {
                match rename_mode {
                    RenameMode::Any => {
                        if event.paths[0].exists() {
                            self.handle_rename_to(event);
                        } else {
                            self.handle_rename_from(event);
                        }
                    }
                    RenameMode::To => {
                        self.handle_rename_to(event);
                    }
                    RenameMode::From => {
                        self.handle_rename_from(event);
                    }
                    RenameMode::Both => {
                        // ignore and handle `To` and `From` events instead
                    }
                    RenameMode::Other => {
                        // unused
                    }
                }
            }
            EventKind::Remove(_) => {
                self.push_remove_event(event, now());
            }
            EventKind::Other => {
                // ignore meta events
            }
            _ => {
                if self.cache.cached_file_id(path).is_none() {
                    let recursive_mode = self.recursive_mode(path);

                    self.cache.add_path(path, recursive_mode);
                }

                self.push_event(event, now());
            }
        }
    }

    fn recursive_mode(&mut self, path: &Path) -> RecursiveMode {
        self.roots
            .iter()
            .find_map(|(root, recursive_mode)| {
                if path.starts_with(root) {
                    Some(*recursive_mode)
                } else {
                    None
                }
            })
            .unwrap_or(RecursiveMode::NonRecursive)
    }

    fn handle_rename_from(&mut self, event: Event) {
        let time = now();
        let path = &event.paths[0];

        // store event
        let file_id = self.cache.cached_file_id(path).cloned();
        self.rename_event = Some((DebouncedEvent::new(event.clone(), time), file_id));

        self.cache.remove_path(path);

        self.push_event(event, time);
    }

    fn handle_rename_to(&mut self, event: Event) {
        let recursive_mode = self.recursive_mode(&event.paths[0]);

        self.cache.add_path(&event.paths[0], recursive_mode);

        let trackers_match = self
            .rename_event
            .as_ref()
            .and_then(|(e, _)| e.tracker())
            .and_then(|from_tracker| {
                event
                    .attrs
                    .tracker()
                    .map(|to_tracker| from_tracker == to_tracker)
            })
            .unwrap_or_default();

        let file_ids_match = self
            .rename_event
            .as_ref()
            .and_then(|(_, id)| id.as_ref())
            .and_then(|from_file_id| {
                self.cache
                    .cached_file_id(&event.paths[0])
                    .map(|to_file_id| from_file_id == to_file_id)
            })
            .unwrap_or_default();

        if trackers_match || file_ids_match {
            // connect rename
            let (mut rename_event, _) = self.rename_event.take().unwrap(); // unwrap is safe because `rename_event` must be set at this point
            let path = rename_event.paths.remove(0);
            let time = rename_event.time;
            self.push_rename_event(path, event, time);
        } else {
            // move in
            self.push_event(event, now());
        }

        self.rename_event = None;
    }

    fn push_rename_event(&mut self, path: PathBuf, event: Event, time: Instant) {
        self.cache.remove_path(&path);

        let mut source_queue = self.queues.remove(&path).unwrap_or_default();

        // remove rename `from` event
        source_queue.events.pop_back();

        // remove existing rename event
        let (remove_index, original_path, original_time) = source_queue
            .events
            .iter()
            .enumerate()
            .find_map(|(index, e)| {
                if matches!(
                    e.kind,
                    EventKind::Modify(ModifyKind::Name(RenameMode::Both))
                ) {
                    Some((Some(index), e.paths[0].clone(), e.time))
                } else {
                    None
                }
            })
            .unwrap_or((None, path, time));

        if let Some(remove_index) = remove_index {
            source_queue.events.remove(remove_index);
        }

        // split off remove or move out event and add it back to the events map
        if source_queue.was_removed() {
            let event = source_queue.events.pop_front().unwrap();

            self.queues.insert(
                event.paths[0].clone(),
                Queue {
                    events: [event].into(),
                },
            );
        }

        // update paths
        for e in &mut source_queue.events {
            e.paths = vec![event.paths[0].clone()];
        }

        // insert rename event at the front, unless the file was just created
        if !source_queue.was_created() {
            source_queue.events.push_front(DebouncedEvent {
                event: Event {
                    kind: EventKind::Modify(ModifyKind::Name(RenameMode::Both)),
                    paths: vec![original_path, event.paths[0].clone()],
                    attrs: event.attrs,
                },
                time: original_time,
            });
        }

        if let Some(target_queue) = self.queues.get_mut(&event.paths[0]) {
            if !target_queue.was_created() {
                let mut remove_event = DebouncedEvent {
                    event: Event {
                        kind: EventKind::Remove(RemoveKind::Any),
                        paths: vec![event.paths[0].clone()],
                        attrs: Default::default(),
                    },
                    time: original_time,
                };
                if !target_queue.was_removed() {
                    remove_event.event = remove_event.event.set_info("override");
                }
                source_queue.events.push_front(remove_event);
            }
            *target_queue = source_queue;
        } else {
            self.queues.insert(event.paths[0].clone(), source_queue);
        }
    }

    fn push_remove_event(&mut self, event: Event, time: Instant) {
        let path = &event.paths[0];

        // remove child queues
        self.queues.retain(|p, _| !p.starts_with(path) || p == path);

        // remove cached file ids
        self.cache.remove_path(path);

        match self.queues.get_mut(path) {
            Some(queue) if queue.was_created() => {
                self.queues.remove(path);
            }
            Some(queue) => {
                queue.events = [DebouncedEvent::new(event, time)].into();
            }
            None => {
                self.push_event(event, time);
            }
        }
    }

    fn push_event(&mut self, event: Event, time: Instant) {
        let path = &event.paths[0];

        if let Some(queue) = self.queues.get_mut(path) {
            // skip duplicate create events and modifications right after creation
            if match event.kind {
                EventKind::Modify(ModifyKind::Data(_) | ModifyKind::Metadata(_))
                | EventKind::Create(_) => !queue.was_created(),
                _ => true,
            } {
                queue.events.push_back(DebouncedEvent::new(event, time));
            }
        } else {
            self.queues.insert(
                path.to_path_buf(),
                Queue {
                    events: [DebouncedEvent::new(event, time)].into(),
                },
            );
        }
    }
}

// ---- END upstream ----

// ---- BEGIN upstream notify-debouncer-full 0.4.0 src/lib.rs (sort_events) ----
fn sort_events(events: Vec<DebouncedEvent>) -> Vec<DebouncedEvent> {
    let mut sorted = Vec::with_capacity(events.len());

    // group events by path
    let mut events_by_path: HashMap<_, VecDeque<_>> =
        events.into_iter().fold(HashMap::new(), |mut acc, event| {
            acc.entry(event.paths.last().cloned().unwrap_or_default())
                .or_default()
                .push_back(event);
            acc
        });

    // push events for different paths in chronological order and keep the order of events with the same path

    let mut min_time_heap = events_by_path
        .iter()
        .map(|(path, events)| Reverse((events[0].time, path.clone())))
        .collect::<BinaryHeap<_>>();

    while let Some(Reverse((min_time, path))) = min_time_heap.pop() {
        // unwrap is safe because only paths from `events_by_path` are added to `min_time_heap`
        // and they are never removed from `events_by_path`.
        let events = events_by_path.get_mut(&path).unwrap();

        let mut push_next = false;

        while events.front().is_some_and(|event| event.time <= min_time) {
            // unwrap is safe because `pop_front` mus return some in order to enter the loop
            let event = events.pop_front().unwrap();
            sorted.push(event);
            push_next = true;
        }

        if push_next {
            if let Some(event) = events.front() {
                min_time_heap.push(Reverse((event.time, path)));
            }
        }
    }

    sorted
}

// ---- END upstream ----

// ---- additions for the simulator (not upstream) ----
impl<T: FileIdCache> DebounceDataInner<T> {
    /// No event is waiting in any queue.
    pub fn is_idle(&self) -> bool {
        self.queues.is_empty() && self.rescan_event.is_none()
    }
}
